//! fmt-sim, part 3: C20 — the default timestamp is the correct UTC calendar time for every instant.
//! The system clock sits behind hook H3; a simulated clock drives the real path
//! fmt layer -> default timer (SystemTime) -> DateTime::from -> Display -> writer.
use crate::fw::*;
use detsim::Rng;
use serde_json::{json, Value};
use std::io;
use std::sync::atomic::Ordering;
use std::sync::{Arc, Mutex};
use tracing_core::dispatch::{self, Dispatch};
use tracing_subscriber::fmt::MakeWriter;
use tracing_subscriber::prelude::*;
use tracing_subscriber::Registry;

pub struct TimeEngine;

#[derive(Clone)]
struct Mem(Arc<Mutex<Vec<u8>>>);
struct MemW(Arc<Mutex<Vec<u8>>>);
impl<'a> MakeWriter<'a> for Mem {
    type Writer = MemW;
    fn make_writer(&'a self) -> MemW {
        MemW(self.0.clone())
    }
}
impl io::Write for MemW {
    fn write(&mut self, buf: &[u8]) -> io::Result<usize> {
        self.0.lock().unwrap().extend_from_slice(buf);
        Ok(buf.len())
    }
    fn flush(&mut self) -> io::Result<()> {
        Ok(())
    }
}

/// A8: civil date from days since 1970-01-01 (era / day-of-era arithmetic; independent of both the
/// `time` crate and the musl-derived code in datetime.rs).
pub fn civil_from_days(days: i64) -> (i64, u32, u32) {
    let z = days + 719_468;
    let era = z.div_euclid(146_097);
    let doe = z.rem_euclid(146_097);
    let yoe = (doe - doe / 1460 + doe / 36_524 - doe / 146_096) / 365;
    let y = yoe + era * 400;
    let doy = doe - (365 * yoe + yoe / 4 - yoe / 100);
    let mp = (5 * doy + 2) / 153;
    let d = (doy - (153 * mp + 2) / 5 + 1) as u32;
    let m = if mp < 10 { mp + 3 } else { mp - 9 } as u32;
    (if m <= 2 { y + 1 } else { y }, m, d)
}
pub fn days_from_civil(y: i64, m: u32, d: u32) -> i64 {
    let y = if m <= 2 { y - 1 } else { y };
    let era = y.div_euclid(400);
    let yoe = y.rem_euclid(400);
    let mp = if m > 2 { m as i64 - 3 } else { m as i64 + 9 };
    let doy = (153 * mp + 2) / 5 + d as i64 - 1;
    let doe = yoe * 365 + yoe / 4 - yoe / 100 + doy;
    era * 146_097 + doe - 719_468
}

fn self_check() -> bool {
    // a table of known dates: (days since epoch, y, m, d)
    let table: [(i64, i64, u32, u32); 9] = [
        (0, 1970, 1, 1),
        (-1, 1969, 12, 31),
        (11_016, 2000, 2, 29),
        (11_017, 2000, 3, 1),
        (-25_567, 1900, 1, 1),
        (47_540, 2100, 2, 28),
        (47_541, 2100, 3, 1),
        (-719_162, 1, 1, 1),
        (2_932_896, 9999, 12, 31),
    ];
    table.iter().all(|(dd, y, m, d)| civil_from_days(*dd) == (*y, *m, *d) && days_from_civil(*y, *m, *d) == *dd)
}

/// expected (year, month, day, hour, minute, second, micros) for an instant given as floor seconds + nanos
fn expected(secs: i64, nanos: u32) -> (i64, u32, u32, u32, u32, u32, u32) {
    let days = secs.div_euclid(86_400);
    let sod = secs.rem_euclid(86_400) as u32;
    let (y, m, d) = civil_from_days(days);
    (y, m, d, sod / 3600, sod / 60 % 60, sod % 60, nanos / 1000)
}

fn parse_stamp(s: &str) -> Option<(i64, u32, u32, u32, u32, u32, u32)> {
    // [+|-]Y..-MM-DDTHH:MM:SS.ffffffZ
    let z = s.find('Z')?;
    let s = &s[..z];
    let t = s.find('T')?;
    let (date, time) = (&s[..t], &s[t + 1..]);
    let neg = date.starts_with('-');
    let date2 = date.trim_start_matches(|c| c == '+' || c == '-');
    let mut dp = date2.split('-');
    let y: i64 = dp.next()?.parse().ok()?;
    let m: u32 = dp.next()?.parse().ok()?;
    let d: u32 = dp.next()?.parse().ok()?;
    let (hms, frac) = time.split_once('.')?;
    let mut tp = hms.split(':');
    let hh: u32 = tp.next()?.parse().ok()?;
    let mm: u32 = tp.next()?.parse().ok()?;
    let ss: u32 = tp.next()?.parse().ok()?;
    if frac.len() != 6 {
        return None;
    }
    let us: u32 = frac.parse().ok()?;
    Some((if neg { -y } else { y }, m, d, hh, mm, ss, us))
}

fn instants(plan: &Value) -> Vec<(i64, u32)> {
    let c = &plan["cfg"];
    let mut rng = Rng::new(c["seed"].as_u64().unwrap_or(1));
    let mut out: Vec<(i64, u32)> = vec![];
    match c["kind"].as_str().unwrap_or("random") {
        "sweep" => {
            // every day in [a, b) at several times of day
            let a = c["a"].as_i64().unwrap_or(0);
            let b = c["b"].as_i64().unwrap_or(0);
            for day in a..b {
                for tod in [0i64, 43_200, 86_399, rng.below(86_400) as i64] {
                    out.push((day * 86_400 + tod, if tod == 86_399 { 999_999_999 } else { rng.below(1_000_000_000) as u32 }));
                }
            }
        }
        "window" => {
            // every second in a window around a boundary, with boundary-hugging sub-second parts
            let a = c["a"].as_i64().unwrap_or(0);
            let n = c["count"].as_i64().unwrap_or(100);
            for s in a..a + n {
                out.push((s, *rng.pick(&[0u32, 1, 999, 1000, 999_999, 1_000_000, 499_999_999, 999_999_000, 999_999_999])));
            }
        }
        _ => {
            let lo = c["lo"].as_i64().unwrap_or(0);
            let hi = c["hi"].as_i64().unwrap_or(1);
            let n = c["count"].as_u64().unwrap_or(100);
            for _ in 0..n {
                let s = lo + rng.below((hi - lo).max(1) as u64) as i64;
                let ns = if rng.chance(1, 4) { *rng.pick(&[0u32, 999_999_999, 999_999_500, 1_500, 999]) } else { rng.below(1_000_000_000) as u32 };
                out.push((s, ns));
            }
        }
    }
    out.sort();
    out
}

const Y0001: i64 = -62_135_596_800; // 0001-01-01T00:00:00Z
const Y10000: i64 = 253_402_300_800; // 10000-01-01T00:00:00Z

impl Engine for TimeEngine {
    fn name(&self) -> &'static str {
        "time-sim"
    }
    fn props(&self) -> &'static [&'static str] {
        &["C20"]
    }
    fn modes(&self, _p: &str) -> Vec<String> {
        vec!["must".into(), "sweep".into()]
    }
    fn mode_weight(&self, _p: &str, _m: &str) -> u32 {
        1
    }
    fn rule(&self, _p: &str) -> String {
        "each run drives one monotone simulated clock trace through the real fmt layer with its default timer: a day-by-day sweep chunk (4 instants per day), an every-second window around a year / leap-day / century / 400-year / epoch boundary, or sorted random instants (also before 1970, with boundary-hugging sub-second parts; outside 0001..9999 only the weaker clauses); the evidence's `instants` counts individual instants; non-trivial = the trace crosses a month boundary or contains an instant before 1970 with a sub-second part; distinct = distinct plan digest".into()
    }
    fn components(&self) -> Value {
        json!({"real": ["tracing_subscriber::fmt::Subscriber", "fmt::time::SystemTime (default timer)", "fmt::time::datetime::DateTime (From<SystemTime>, Display)"], "stub": ["system clock (hook H3 reads the simulated clock)", "writer (in-memory)"]})
    }
    fn generate(&self, g: &GenCtx) -> Value {
        let mut rng = Rng::new(g.seed);
        let thorough = g.tier == "thorough";
        let cfg = if g.mode == "sweep" {
            // a random chunk of consecutive days inside 0001..9999
            let days = if thorough { 3000 } else { 400 };
            let a = Y0001 / 86_400 + rng.below(((Y10000 - Y0001) / 86_400 - days) as u64) as i64;
            json!({"kind": "sweep", "a": a, "b": a + days, "seed": rng.next_u64()})
        } else {
            match rng.below(3) {
                0 => {
                    // windows around boundaries: new year, leap day, century, 400-year, the epoch, year 1 and 9999
                    let y = match rng.below(8) {
                        0 => 1970,
                        1 => *rng.pick(&[1900i64, 2000, 2100, 2400, 1600, 400, 800]),
                        2 => rng.range(1, 9999) as i64 / 4 * 4,
                        3 => 1,
                        4 => 9999,
                        _ => rng.range(1, 9999) as i64,
                    };
                    let (m, d) = *rng.pick(&[(1u32, 1u32), (3, 1), (2, 28), (12, 31), (2, 29)]);
                    let day = days_from_civil(y.max(1), m, d.min(28 + (m != 2) as u32 * 3));
                    let n = if thorough { 4000 } else { 600 };
                    let a = (day * 86_400 - n / 2).clamp(Y0001, Y10000 - n - 1);
                    json!({"kind": "window", "a": a, "count": n, "seed": rng.next_u64()})
                }
                1 => json!({"kind": "random", "lo": Y0001, "hi": Y10000, "count": if thorough { 4000 } else { 800 }, "seed": rng.next_u64()}),
                _ => {
                    // the wider range of SystemTime (weaker clauses outside 0001..9999), and pre-1970 instants
                    let (lo, hi) = *rng.pick(&[(-(1i64 << 40), 1i64 << 40), (-4_000_000_000, 0), (-100_000, 100_000), (Y0001 - 1_000_000, Y0001 + 1_000_000), (Y10000 - 1_000_000, Y10000 + 1_000_000)]);
                    json!({"kind": "random", "lo": lo, "hi": hi, "count": if thorough { 4000 } else { 800 }, "seed": rng.next_u64()})
                }
            }
        };
        let sched = Sched::op_order(rng.next_u64());
        json!({"engine": "time", "prop": g.prop, "mode": g.mode, "cfg": cfg, "steps": [], "sched": serde_json::to_value(&sched).unwrap()})
    }

    fn execute(&self, plan: &Value) -> RunResult {
        let sched = plan_sched(plan);
        let plan2 = plan.clone();
        let body = move || {
            if !self_check() {
                violation("harness-calendar-selfcheck", "the independent calendar routine failed its own table");
                return;
            }
            let buf = Arc::new(Mutex::new(Vec::new()));
            let layer = tracing_subscriber::fmt::subscriber().with_ansi(false).with_writer(Mem(buf.clone()));
            let d = Dispatch::new(Registry::default().with(layer));
            let _g = dispatch::set_default(&d);
            WALL_ENABLED.store(true, Ordering::SeqCst);
            let list = instants(&plan2);
            let mut prev: Option<(i64, u32, u32, u32, u32, u32, u32)> = None;
            let mut crossed_month = false;
            let mut neg_subsec = false;
            let mut n = 0u64;
            for (secs, nanos) in list {
                WALL_BASE_S.store(secs, Ordering::SeqCst);
                WALL_BASE_NS.store(nanos as i64, Ordering::SeqCst);
                buf.lock().unwrap().clear();
                tracing::info!(target: "app", "tick");
                let line = String::from_utf8_lossy(&buf.lock().unwrap()).to_string();
                n += 1;
                let got = match parse_stamp(&line) {
                    Some(g) => g,
                    None => {
                        violation("timestamp-unparsable", format!("instant {secs}s+{nanos}ns printed as {:?}", line));
                        return;
                    }
                };
                let want = expected(secs, nanos);
                let in_range = (Y0001..Y10000).contains(&secs);
                if got != want {
                    violation(if in_range { "wrong-calendar-time" } else { "wrong-calendar-time-outside-0001-9999" }, format!("instant {secs}s+{nanos}ns printed as {:?}; the correct UTC time is {:04}-{:02}-{:02}T{:02}:{:02}:{:02}.{:06}Z", line.split_whitespace().next().unwrap_or(""), want.0, want.1, want.2, want.3, want.4, want.5, want.6));
                    return;
                }
                if in_range {
                    // exact RFC 3339 text, microseconds truncated
                    let text = format!("{:04}-{:02}-{:02}T{:02}:{:02}:{:02}.{:06}Z", want.0, want.1, want.2, want.3, want.4, want.5, want.6);
                    if !line.starts_with(&text) {
                        violation("wrong-timestamp-text", format!("instant {secs}s+{nanos}ns printed as {:?}, expected {text}", line.split_whitespace().next().unwrap_or("")));
                        return;
                    }
                }
                if let Some(p) = prev {
                    if got < p {
                        violation("timestamps-decrease", format!("successive instants printed in decreasing order: {:?} then {:?}", p, got));
                        return;
                    }
                    if p.1 != got.1 {
                        crossed_month = true;
                    }
                }
                if secs < 0 && nanos != 0 {
                    neg_subsec = true;
                }
                prev = Some(got);
            }
            probe_n("instants", n);
            ev(format!("instants {n}"));
            if crossed_month || neg_subsec {
                nontrivial();
            }
        };
        simulate(&plan.to_string(), &sched, None, body, || {})
    }
}
