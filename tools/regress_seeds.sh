#!/bin/bash
# regress_seeds.sh [runs] — re-run every kept seeded change against the check(s) named in its meta.json (caught_by),
# with the machinery as it is now. Applies each patch to /repo, runs the check, reverts. Writes seeded/REGRESSION.txt.
# A patch that no longer applies (a later fix: commit rewrote the code) is reported as such, not as a miss.
RUNS=${1:-40000}
OUT=/verif/seeded/REGRESSION.txt
cd /repo || exit 2
if [ -n "$(git status --porcelain)" ]; then echo "/repo not clean"; exit 2; fi
: > $OUT.tmp
for d in $(ls -d /verif/seeded/C*-m* | sort -V); do
  id=$(basename $d)
  props=$(python3 -c "import json;print(' '.join(json.load(open('$d/meta.json')).get('caught_by',[])))")
  if ! git -C /repo apply --check $d/patch.diff 2>/dev/null; then echo "$id no-longer-applies" >> $OUT.tmp; continue; fi
  git -C /repo apply $d/patch.diff
  res=""
  for p in $props; do
    out=$(cd /verif && VERIF_ROOT=/tmp/regress-root ./check $p --runs $RUNS --no-evidence 2>&1)
    rc=$?
    cls=$(echo "$out" | grep -m1 "class=" | sed 's/.*class=\([a-z0-9-]*\).*/\1/')
    if [ $rc -eq 1 ]; then res="$res $p:caught($cls)"; break; else res="$res $p:MISSED(rc=$rc)"; fi
  done
  git -C /repo checkout -- . && git -C /repo clean -fdq
  echo "$id$res" >> $OUT.tmp
  echo "$id$res"
done
mv $OUT.tmp $OUT
rm -rf /tmp/regress-root
