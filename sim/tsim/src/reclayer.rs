//! Recording layer: logs every `Subscribe` callback with thread and stamp, and inside callbacks
//! performs (and logs) the context lookups the properties talk about.
use crate::fw::{ev, violation};
use crate::rec::site_of;
use std::sync::atomic::{AtomicBool, AtomicI64, AtomicU64, Ordering};
use std::sync::{Arc, Mutex};
use tracing_core::span::{Attributes, Id, Record};
use tracing_core::{Collect, Event, Interest, LevelFilter, Metadata};
use tracing_subscriber::registry::LookupSpan;
use tracing_subscriber::subscribe::{Context, Subscribe};

#[derive(Clone, Debug, Default)]
pub struct LRec {
    pub stamp: u64,
    pub thread: usize,
    pub stack: usize,
    pub layer: usize,
    pub kind: &'static str,
    pub id: u64,
    pub id2: u64,
    pub val: u64,
    pub site: i32,
    pub skind: u8,
    pub name: &'static str,
    pub flag: bool,
    /// scope of the span / event, leaf -> root
    pub chain: Vec<u64>,
    /// the same from `from_root()`
    pub chain_root: Vec<u64>,
    /// `ctx.lookup_current()` at the time of the callback (0 = none)
    pub cur: u64,
    /// `ctx.event_span(event)` (0 = none)
    pub evspan: u64,
    /// serial read back from the span's extensions (0 = none)
    pub serial: u64,
}

pub static LLOG: Mutex<Vec<LRec>> = Mutex::new(Vec::new());
/// Reentrancy: span handles a layer keeps on behalf of another span and releases in that span's `on_close`
/// (keyed by the id of the span whose close releases them; the outermost recording layer of stack 0 does it).
pub static RELEASE_ON_CLOSE: Mutex<Vec<(u64, tracing::Span)>> = Mutex::new(Vec::new());

/// Reentrancy: spans at whose close the outermost recording layer of stack 0 does some traced work of its own (a
/// short-lived span, entered and left); afterwards that span must be gone again. (ids; second field: serial)
pub static WORK_ON_CLOSE: Mutex<Vec<u64>> = Mutex::new(Vec::new());
static WORK_SERIAL: AtomicU64 = AtomicU64::new(0);

thread_local! {
    /// fault injection: the next `on_exit` of the outermost recording layer (layer 1) on this thread panics,
    /// after every layer has been told about the exit
    pub static PANIC_NEXT_ON_EXIT: std::cell::Cell<bool> = std::cell::Cell::new(false);
    /// fault injection: the next `on_exit` of *any* recording layer on this thread panics (after logging)
    pub static PANIC_ON_EXIT_ANY: std::cell::Cell<bool> = std::cell::Cell::new(false);
    /// the same for `on_close` (the span must be removed and its parent released all the same)
    /// (holds the id of the span whose `on_close` panics; 0 = none)
    pub static PANIC_NEXT_ON_CLOSE: std::cell::Cell<u64> = std::cell::Cell::new(0);
}
static NEXT_SERIAL: AtomicU64 = AtomicU64::new(1);

pub fn take_llog() -> Vec<LRec> {
    std::mem::take(&mut *LLOG.lock().unwrap())
}
pub fn snapshot_llog() -> Vec<LRec> {
    LLOG.lock().unwrap().clone()
}

/// extension shared by all recording layers of a stack: (layer, serial) pairs
pub struct Serials(pub Vec<(usize, u64)>);

#[derive(Default)]
pub struct LayerCfg {
    /// the layer emits an event of its own (target `AUX_TARGET`) from inside `register_callsite`: re-entrancy into the
    /// per-thread interest accumulation of the per-layer filters
    pub emit_in_register: AtomicBool,
    /// veto `enabled` for this pool site (-1: never veto)
    pub veto_enabled_site: AtomicI64,
    /// veto `event_enabled` for events whose `val` field equals this (0: never)
    pub veto_event_val: AtomicU64,
    /// do the (costly) scope walks inside callbacks
    pub walk: AtomicBool,
    /// answer `register_callsite` with `sometimes` instead of `always` (so `enabled` is asked)
    pub sometimes: AtomicBool,
}

#[derive(Clone)]
pub struct RecLayer {
    pub stack: usize,
    pub layer: usize,
    pub cfg: Arc<LayerCfg>,
}

impl RecLayer {
    pub fn new(stack: usize, layer: usize) -> Self {
        let cfg = LayerCfg::default();
        cfg.veto_enabled_site.store(-1, Ordering::SeqCst);
        cfg.walk.store(true, Ordering::SeqCst);
        RecLayer { stack, layer, cfg: Arc::new(cfg) }
    }
    fn push(&self, mut r: LRec) {
        r.stamp = detsim::stamp();
        r.thread = detsim::current();
        r.stack = self.stack;
        r.layer = self.layer;
        ev(format!(
            "L{}.{} t{} {} id{} id2 {} v{} s{} f{} chain{:?} cur{} evs{} ser{}",
            r.stack, r.layer, r.thread, r.kind, r.id, r.id2, r.val, r.site, r.flag, r.chain, r.cur, r.evspan, r.serial
        ));
        LLOG.lock().unwrap().push(r);
    }
}

struct ValVisitor {
    val: u64,
}
impl tracing_core::field::Visit for ValVisitor {
    fn record_u64(&mut self, field: &tracing_core::field::Field, value: u64) {
        if field.name() == "val" || field.name() == "late" {
            self.val = value;
        }
    }
    fn record_debug(&mut self, _f: &tracing_core::field::Field, _v: &dyn std::fmt::Debug) {}
}

/// target of the events a layer emits from inside its own `register_callsite`; no layer records them
pub const AUX_TARGET: &str = "c07aux";
fn is_aux(meta: &Metadata<'_>) -> bool {
    meta.target() == AUX_TARGET
}

fn meta_rec(meta: &Metadata<'_>, kind: &'static str) -> LRec {
    let (site, skind, name) = site_of(meta);
    LRec { kind, site, skind, name, ..Default::default() }
}

impl<C> Subscribe<C> for RecLayer
where
    C: Collect + for<'a> LookupSpan<'a>,
{
    fn on_register_dispatch(&self, _collector: &tracing_core::Dispatch) {
        self.push(LRec { kind: "on_register_dispatch", ..Default::default() });
    }
    fn register_callsite(&self, metadata: &'static Metadata<'static>) -> Interest {
        if is_aux(metadata) {
            return Interest::always();
        }
        if self.cfg.emit_in_register.load(Ordering::SeqCst) {
            // one callsite per registered site's level, so that several of them are met unregistered in one run
            match crate::sites::level_num(metadata.level()) {
                1 => tracing::event!(target: "c07aux", tracing::Level::ERROR, val = 0u64),
                2 => tracing::event!(target: "c07aux", tracing::Level::WARN, val = 0u64),
                3 => tracing::event!(target: "c07aux", tracing::Level::INFO, val = 0u64),
                4 => tracing::event!(target: "c07aux", tracing::Level::DEBUG, val = 0u64),
                _ => tracing::event!(target: "c07aux", tracing::Level::TRACE, val = 0u64),
            }
        }
        let mut r = meta_rec(metadata, "register_callsite");
        r.flag = true;
        self.push(r);
        if self.cfg.sometimes.load(Ordering::SeqCst) || self.cfg.veto_enabled_site.load(Ordering::SeqCst) >= 0 {
            Interest::sometimes()
        } else {
            Interest::always()
        }
    }
    fn enabled(&self, metadata: &Metadata<'_>, _ctx: Context<'_, C>) -> bool {
        if is_aux(metadata) {
            return true;
        }
        let mut r = meta_rec(metadata, "enabled");
        let veto = self.cfg.veto_enabled_site.load(Ordering::SeqCst);
        r.flag = !(veto >= 0 && veto == r.site as i64);
        let f = r.flag;
        self.push(r);
        f
    }
    fn max_level_hint(&self) -> Option<LevelFilter> {
        self.push(LRec { kind: "max_level_hint", ..Default::default() });
        None
    }
    fn on_new_span(&self, attrs: &Attributes<'_>, id: &Id, ctx: Context<'_, C>) {
        if is_aux(attrs.metadata()) {
            return;
        }
        let mut r = meta_rec(attrs.metadata(), "on_new_span");
        let mut v = ValVisitor { val: 0 };
        attrs.record(&mut v);
        r.val = v.val;
        r.id = id.into_u64();
        r.cur = ctx.lookup_current().map(|s| s.id().into_u64()).unwrap_or(0);
        match ctx.span(id) {
            Some(span) => {
                r.flag = true;
                r.id2 = span.parent().map(|p| p.id().into_u64()).unwrap_or(0);
                if self.cfg.walk.load(Ordering::SeqCst) {
                    r.chain = span.scope().map(|s| s.id().into_u64()).collect();
                    r.chain_root = span.scope().from_root().map(|s| s.id().into_u64()).collect();
                    // walking up with `parent()` must visit the same spans as the scope iterator
                    let mut by_parent = vec![span.id().into_u64()];
                    let mut p = span.parent();
                    while let Some(x) = p {
                        by_parent.push(x.id().into_u64());
                        p = x.parent();
                    }
                    if by_parent != r.chain {
                        violation("parent-walk-differs", format!("layer {} (stack {}): walking up from span {} with SpanRef::parent() visits {:?} but scope() yields {:?}", self.layer, self.stack, span.id().into_u64(), by_parent, r.chain));
                    }
                    // every element's data must be readable
                    for s in span.scope() {
                        let _ = s.extensions().get::<Serials>().map(|x| x.0.len());
                        let _ = s.metadata().name();
                    }
                }
                let serial = NEXT_SERIAL.fetch_add(1, Ordering::SeqCst);
                r.serial = serial;
                let mut ext = span.extensions_mut();
                if let Some(s) = ext.get_mut::<Serials>() {
                    if s.0.iter().any(|(l, _)| *l == self.layer) {
                        violation("stale-data-after-reuse", format!("new span {:?} already carries data stored by layer {} for an earlier span in the same slot", id, self.layer));
                    }
                    s.0.push((self.layer, serial));
                } else {
                    ext.insert(Serials(vec![(self.layer, serial)]));
                }
            }
            None => {
                r.flag = false;
            }
        }
        self.push(r);
    }
    fn on_record(&self, span: &Id, values: &Record<'_>, ctx: Context<'_, C>) {
        let mut v = ValVisitor { val: 0 };
        values.record(&mut v);
        let flag = ctx.span(span).is_some();
        let cur = ctx.lookup_current().map(|s| s.id().into_u64()).unwrap_or(0);
        let id2 = ctx.span(span).and_then(|s| s.parent().map(|p| p.id().into_u64())).unwrap_or(0);
        self.push(LRec { kind: "on_record", id: span.into_u64(), id2, val: v.val, flag, cur, ..Default::default() });
    }
    fn on_follows_from(&self, span: &Id, follows: &Id, _ctx: Context<'_, C>) {
        self.push(LRec { kind: "on_follows_from", id: span.into_u64(), id2: follows.into_u64(), ..Default::default() });
    }
    fn event_enabled(&self, event: &Event<'_>, _ctx: Context<'_, C>) -> bool {
        if is_aux(event.metadata()) {
            return true;
        }
        let mut r = meta_rec(event.metadata(), "event_enabled");
        let mut v = ValVisitor { val: 0 };
        event.record(&mut v);
        r.val = v.val;
        let veto = self.cfg.veto_event_val.load(Ordering::SeqCst);
        r.flag = !(veto != 0 && veto == v.val);
        let f = r.flag;
        self.push(r);
        f
    }
    fn on_event(&self, event: &Event<'_>, ctx: Context<'_, C>) {
        if is_aux(event.metadata()) {
            return;
        }
        let mut r = meta_rec(event.metadata(), "on_event");
        let mut v = ValVisitor { val: 0 };
        event.record(&mut v);
        r.val = v.val;
        r.cur = ctx.lookup_current().map(|s| s.id().into_u64()).unwrap_or(0);
        r.evspan = ctx.event_span(event).map(|s| s.id().into_u64()).unwrap_or(0);
        r.id2 = ctx.current_span().id().map(|i| i.into_u64()).unwrap_or(0);
        if self.cfg.walk.load(Ordering::SeqCst) {
            if let Some(scope) = ctx.event_scope(event) {
                r.chain = scope.map(|s| s.id().into_u64()).collect();
            }
            let mut by_parent = vec![];
            let mut p = ctx.event_span(event);
            while let Some(x) = p {
                by_parent.push(x.id().into_u64());
                p = x.parent();
            }
            if by_parent != r.chain {
                violation("parent-walk-differs", format!("layer {} (stack {}): walking up from the event's span with SpanRef::parent() visits {:?} but event_scope() yields {:?}", self.layer, self.stack, by_parent, r.chain));
            }
            if let Some(scope) = ctx.event_scope(event) {
                r.chain_root = scope.from_root().map(|s| s.id().into_u64()).collect();
            }
        }
        r.flag = true;
        self.push(r);
    }
    fn on_enter(&self, id: &Id, ctx: Context<'_, C>) {
        let cur = ctx.lookup_current().map(|s| s.id().into_u64()).unwrap_or(0);
        self.push(LRec { kind: "on_enter", id: id.into_u64(), cur, flag: ctx.span(id).is_some(), ..Default::default() });
    }
    fn on_exit(&self, id: &Id, ctx: Context<'_, C>) {
        let cur = ctx.lookup_current().map(|s| s.id().into_u64()).unwrap_or(0);
        self.push(LRec { kind: "on_exit", id: id.into_u64(), cur, flag: ctx.span(id).is_some(), ..Default::default() });
        if PANIC_ON_EXIT_ANY.with(|c| c.replace(false)) {
            crate::fw::fault("panic_in_filtered_layer_on_exit");
            panic!("injected panic inside a filtered layer's on_exit");
        }
        if self.layer == 1 && PANIC_NEXT_ON_EXIT.with(|c| c.replace(false)) {
            crate::fw::fault("panic_in_on_exit");
            panic!("injected panic inside Subscribe::on_exit");
        }
    }
    fn on_close(&self, id: Id, ctx: Context<'_, C>) {
        if ctx.span(&id).map_or(false, |s| is_aux(s.metadata())) {
            return;
        }
        let mut r = LRec { kind: "on_close", id: id.into_u64(), ..Default::default() };
        r.cur = ctx.lookup_current().map(|s| s.id().into_u64()).unwrap_or(0);
        match ctx.span(&id) {
            Some(span) => {
                r.flag = true;
                r.id2 = span.parent().map(|p| p.id().into_u64()).unwrap_or(0);
                r.serial = span.extensions().get::<Serials>().and_then(|s| s.0.iter().find(|(l, _)| *l == self.layer).map(|x| x.1)).unwrap_or(0);
            }
            None => r.flag = false,
        }
        self.push(r);
        if self.stack == 0 && self.layer == 1 {
            let work = {
                let mut w = WORK_ON_CLOSE.lock().unwrap();
                match w.iter().position(|x| *x == id.into_u64()) {
                    Some(p) => {
                        w.remove(p);
                        true
                    }
                    None => false,
                }
            };
            if work {
                crate::fw::fault("span_used_inside_on_close");
                let n = WORK_SERIAL.fetch_add(1, Ordering::SeqCst);
                let s = crate::sites::make_span(8, 600_000_000 + n);
                let wid = s.id();
                s.in_scope(|| {});
                drop(s);
                if let Some(wid) = wid {
                    if ctx.span(&wid).is_some() {
                        self.push(LRec { kind: "work_leak", id: wid.into_u64(), id2: id.into_u64(), ..Default::default() });
                    }
                }
            }
            // taken out under the mutex, dropped outside it: each drop re-enters the collector (try_close)
            let mine: Vec<tracing::Span> = {
                let mut held = RELEASE_ON_CLOSE.lock().unwrap();
                let mut out = vec![];
                let mut k = 0;
                while k < held.len() {
                    if held[k].0 == id.into_u64() {
                        out.push(held.remove(k).1);
                    } else {
                        k += 1;
                    }
                }
                out
            };
            if !mine.is_empty() {
                crate::fw::fault("handle_dropped_inside_on_close");
            }
            drop(mine);
        }
        if self.layer == 1 && PANIC_NEXT_ON_CLOSE.with(|c| c.get() == id.into_u64() && c.replace(0) != 0) {
            crate::fw::fault("panic_in_on_close");
            panic!("injected panic inside Subscribe::on_close");
        }
    }
    fn on_id_change(&self, old: &Id, new: &Id, _ctx: Context<'_, C>) {
        self.push(LRec { kind: "on_id_change", id: old.into_u64(), id2: new.into_u64(), ..Default::default() });
    }
}
