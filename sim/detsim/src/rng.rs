//! xoshiro256** seeded through SplitMix64 — own code so the stream never changes under us.

#[derive(Clone, Debug)]
pub struct Rng {
    s: [u64; 4],
}

pub fn splitmix(x: &mut u64) -> u64 {
    *x = x.wrapping_add(0x9E3779B97F4A7C15);
    let mut z = *x;
    z = (z ^ (z >> 30)).wrapping_mul(0xBF58476D1CE4E5B9);
    z = (z ^ (z >> 27)).wrapping_mul(0x94D049BB133111EB);
    z ^ (z >> 31)
}

/// Mix a base seed and a run index into a per-run seed.
pub fn mix(base: u64, index: u64) -> u64 {
    let mut x = base ^ index.wrapping_mul(0xD6E8FEB86659FD93);
    let a = splitmix(&mut x);
    let b = splitmix(&mut x);
    a ^ b.rotate_left(17)
}

impl Rng {
    pub const fn zero() -> Self {
        Rng { s: [1, 2, 3, 4] }
    }
    pub fn new(seed: u64) -> Self {
        let mut x = seed;
        let s = [splitmix(&mut x), splitmix(&mut x), splitmix(&mut x), splitmix(&mut x)];
        Rng { s }
    }
    pub fn next_u64(&mut self) -> u64 {
        let r = self.s[1].wrapping_mul(5).rotate_left(7).wrapping_mul(9);
        let t = self.s[1] << 17;
        self.s[2] ^= self.s[0];
        self.s[3] ^= self.s[1];
        self.s[1] ^= self.s[2];
        self.s[0] ^= self.s[3];
        self.s[2] ^= t;
        self.s[3] = self.s[3].rotate_left(45);
        r
    }
    /// uniform in 0..n (n >= 1)
    pub fn below(&mut self, n: u64) -> u64 {
        if n <= 1 {
            return 0;
        }
        // multiply-shift; bias negligible for our n
        ((self.next_u64() as u128 * n as u128) >> 64) as u64
    }
    pub fn range(&mut self, lo: u64, hi_incl: u64) -> u64 {
        lo + self.below(hi_incl - lo + 1)
    }
    pub fn chance(&mut self, num: u64, den: u64) -> bool {
        self.below(den) < num
    }
    pub fn pick<'a, T>(&mut self, xs: &'a [T]) -> &'a T {
        &xs[self.below(xs.len() as u64) as usize]
    }
    pub fn fork(&mut self) -> Rng {
        Rng::new(self.next_u64())
    }
}
