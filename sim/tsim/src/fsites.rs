//! Span callsites with names and typed fields for C11 (span-scoped directives). GENERATED.
#![allow(clippy::all)]
use tracing::Level;
pub const N: usize = 6;
pub const TARGETS: [&str; 3] = ["app", "app::db", "other"];
pub const NAMES: [&str; 2] = ["alpha", "beta"];
/// (target index, name index); every site is an INFO span with fields x (i64), flag (bool), y (empty at creation), val (uid), who (Debug)
pub const SITES: [(u8, u8); N] = [(0, 0), (0, 1), (1, 0), (1, 1), (2, 0), (2, 1)];
/// The value of the `who` field: recorded through `Debug`, so that a pattern matcher of a directive runs this impl.
pub enum Who {
    Name(&'static str),
    /// its `Debug` impl panics
    Boom,
    /// its `Debug` impl creates (and drops) a span of its own before it writes the name: re-entrancy into whatever
    /// collector is formatting or matching the field
    Nested(&'static str),
}
impl std::fmt::Debug for Who {
    fn fmt(&self, f: &mut std::fmt::Formatter<'_>) -> std::fmt::Result {
        match self {
            Who::Name(n) => f.write_str(n),
            Who::Boom => panic!("injected panic in the Debug impl of a span field"),
            Who::Nested(n) => {
                drop(tracing::span!(target: "c07aux", Level::DEBUG, "nested_helper"));
                f.write_str(n)
            }
        }
    }
}
pub fn make(i: usize, x: i64, flag: bool, val: u64, who: &Who) -> tracing::Span {
    match i {
        0 => tracing::span!(target: "app", Level::INFO, "alpha", x = x, flag = flag, y = tracing::field::Empty, val = val, who = ?who),
        1 => tracing::span!(target: "app", Level::INFO, "beta", x = x, flag = flag, y = tracing::field::Empty, val = val, who = ?who),
        2 => tracing::span!(target: "app::db", Level::INFO, "alpha", x = x, flag = flag, y = tracing::field::Empty, val = val, who = ?who),
        3 => tracing::span!(target: "app::db", Level::INFO, "beta", x = x, flag = flag, y = tracing::field::Empty, val = val, who = ?who),
        4 => tracing::span!(target: "other", Level::INFO, "alpha", x = x, flag = flag, y = tracing::field::Empty, val = val, who = ?who),
        5 => tracing::span!(target: "other", Level::INFO, "beta", x = x, flag = flag, y = tracing::field::Empty, val = val, who = ?who),
        _ => tracing::Span::none(),
    }
}
