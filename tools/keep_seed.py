#!/usr/bin/env python3
"""keep_seed.py <PROP> <mN> <caught_by> <check output summary> [<dest mN>] — copy a confirmed seeded change into /verif/seeded/"""
import json, sys, shutil, os, glob
prop, m, caught, summary = sys.argv[1], sys.argv[2], sys.argv[3], sys.argv[4]
dest = sys.argv[5] if len(sys.argv) > 5 else m
src = f"/tmp/seed-{prop}/{m}"
sid = f"{prop}-{dest}"
dst = f"/verif/seeded/{sid}"
os.makedirs(dst, exist_ok=True)
shutil.copy(f"{src}/patch.diff", f"{dst}/patch.diff")
for f in glob.glob(f"{src}/*.rs"):
    shutil.copy(f, dst)
meta = json.load(open(f"{src}/meta.json"))
meta["id"] = sid
meta["confirmed_by_me"] = open(f"{src}/confirm.log").read().strip().splitlines()
meta["what_i_ran"] = f"tools/confirm_any.sh {prop} {src} <scratch worktree> (demo fails with / passes without the patch; existing suite of the touched crates unchanged); tools/try_seed.sh {caught.split(',')[0]} {dst}/patch.diff"
meta["caught_by"] = caught.split(",")
meta["check_result"] = summary
json.dump(meta, open(f"{dst}/meta.json", "w"), indent=1)
print("kept", sid)
