//! span-sim: C03 — span handles drive their collector through a well-formed, balanced protocol.
//! Real `Span`, guards, `in_scope`, `Instrumented`, `WithDispatch`, tracing-futures adapters against
//! recording collectors with disjoint id spaces. The executor computes the exact expected call
//! sequence (A3 protocol automaton unrolled over the program) while it runs the program.
use crate::fw::*;
use crate::rec::{self, FilterSpec, Rec, RecCollect};
use crate::sites;
use detsim::Rng;
use serde_json::{json, Value};
use std::cell::RefCell;
use std::collections::HashMap;
use std::future::Future;
use std::pin::Pin;
use std::sync::atomic::{AtomicUsize, Ordering};
use std::sync::Mutex;
use std::task::{Context, Poll, RawWaker, RawWakerVTable, Waker};
use tracing::instrument::{Instrument, WithCollector};
use tracing::Span;
use tracing_core::dispatch::{self, Dispatch};

pub struct SpanEngine;

const NSLOTS: usize = 12;
const NTASKS: usize = 4;
const NGUARDS: usize = 4;

#[derive(Clone, Debug, PartialEq, Eq)]
struct Exp {
    k: i64,
    kind: &'static str,
    uid: u64,
    aux: u64,
    t: usize,
}

struct SlotE {
    span: Span,
    uid: u64,
    k: i64,
    disabled: bool,
}

/// A spawned task; the plain `Instrumented` wrappers can also be taken apart again with `into_inner`.
trait TaskFut: Future<Output = ()> + Send {
    /// `Instrumented::into_inner` then drop the bare future; false if this wrapper has no such operation
    fn unwrap_inner(self: Pin<Box<Self>>) -> bool;
}
impl TaskFut for tracing::instrument::Instrumented<BodyFut> {
    fn unwrap_inner(self: Pin<Box<Self>>) -> bool {
        let inner: BodyFut = (*Pin::into_inner(self)).into_inner();
        drop(inner);
        true
    }
}
impl TaskFut for tracing_futures::Instrumented<BodyFut> {
    fn unwrap_inner(self: Pin<Box<Self>>) -> bool {
        let inner: BodyFut = (*Pin::into_inner(self)).into_inner();
        drop(inner);
        true
    }
}
impl TaskFut for tracing::instrument::WithDispatch<tracing::instrument::Instrumented<BodyFut>> {
    fn unwrap_inner(self: Pin<Box<Self>>) -> bool {
        false
    }
}
type BoxFut = Pin<Box<dyn TaskFut>>;
struct TaskE {
    fut: BoxFut,
    uid: u64,
    k: i64,
    /// the collector a `with_collector` wrapper installs for each poll (1 = the second collector, -1 = none)
    with_dispatch: Option<i64>,
}

struct Model {
    slots: Vec<Option<SlotE>>,
    tasks: Vec<Option<TaskE>>,
    stacks: HashMap<(usize, i64), Vec<(u64, u64)>>,
    expect: Vec<Exp>,
    collectors: Vec<Dispatch>,
    filters: Vec<FilterSpec>,
    next_uid: u64,
    notes: Vec<String>,
}
static MODEL: Mutex<Option<Model>> = Mutex::new(None);
static TURN: AtomicUsize = AtomicUsize::new(0);

fn m<R>(f: impl FnOnce(&mut Model) -> R) -> R {
    let mut g = MODEL.lock().unwrap_or_else(|p| p.into_inner());
    f(g.as_mut().unwrap())
}

struct GuardE {
    g: tracing::span::EnteredSpan,
    uid: u64,
    k: i64,
    disabled: bool,
}
struct ThreadCtx {
    guards: Vec<Option<GuardE>>,
    defaults: Vec<(dispatch::DefaultGuard, i64)>,
    /// model-only default pushes (WithDispatch during poll)
    model_defaults: Vec<i64>,
}
thread_local! {
    static TC: RefCell<ThreadCtx> = RefCell::new(ThreadCtx { guards: (0..NGUARDS).map(|_| None).collect(), defaults: vec![], model_defaults: vec![] });
}

fn cur_default() -> i64 {
    TC.with(|tc| {
        let tc = tc.borrow();
        if let Some(k) = tc.model_defaults.last() {
            *k
        } else if let Some((_, k)) = tc.defaults.last() {
            *k
        } else {
            0
        }
    })
}

fn expect(k: i64, kind: &'static str, uid: u64, aux: u64) {
    if k < 0 {
        return;
    }
    let t = detsim::current();
    m(|mo| mo.expect.push(Exp { k, kind, uid, aux, t }));
}
fn stack_push(k: i64, uid: u64) {
    stack_push_h(k, uid, 0)
}
fn stack_pop(k: i64, uid: u64) {
    stack_pop_h(k, uid, 0)
}
/// `raw`: the id the entering handle carries (0 for scopes that nest strictly). A collector that hands out one id per
/// handle sees the same span entered under different ids; an exit removes the entry of *its* handle, wherever it is.
fn stack_push_h(k: i64, uid: u64, raw: u64) {
    if k < 0 {
        return;
    }
    let t = detsim::current();
    m(|mo| mo.stacks.entry((t, k)).or_default().push((uid, raw)));
}
fn stack_pop_h(k: i64, uid: u64, raw: u64) {
    if k < 0 {
        return;
    }
    let t = detsim::current();
    m(|mo| {
        if let Some(v) = mo.stacks.get_mut(&(t, k)) {
            let p = v.iter().rposition(|u| *u == (uid, raw)).or_else(|| v.iter().rposition(|u| u.0 == uid));
            if let Some(p) = p {
                v.remove(p);
            }
        }
    });
}
fn stack_top(k: i64) -> u64 {
    if k < 0 {
        return 0;
    }
    let t = detsim::current();
    m(|mo| mo.stacks.get(&(t, k)).and_then(|v| v.last().map(|x| x.0)).unwrap_or(0))
}
fn new_uid() -> u64 {
    m(|mo| {
        mo.next_uid += 1;
        mo.next_uid * 10
    })
}
fn accepts(k: i64, site: usize) -> bool {
    if k < 0 {
        return false;
    }
    let (lvl, tg) = sites::SITES[site];
    m(|mo| mo.filters[k as usize].accept(lvl, tg, false))
}
fn take_slot(slot: usize) -> Option<SlotE> {
    m(|mo| mo.slots[slot].take())
}
fn put_slot(slot: usize, e: SlotE) {
    // a slot that is occupied receives the handle anyway: the old one is dropped first (with its expectation)
    let old = m(|mo| mo.slots[slot].take());
    if let Some(o) = old {
        drop_handle(o);
    }
    m(|mo| mo.slots[slot] = Some(e));
}
fn drop_handle(e: SlotE) {
    if !e.disabled {
        expect(e.k, "try_close", e.uid, 0);
    }
    drop(e.span);
}
fn slot_free(slot: usize) -> bool {
    m(|mo| mo.slots[slot].is_none())
}

/// Span::current() as the model sees it, with the expectation pushed.
fn model_current() -> (i64, u64) {
    let d = cur_default();
    let top = stack_top(d);
    if d >= 0 && top != 0 {
        expect(d, "clone_span", top, 0);
        (d, top)
    } else {
        (-1, 0)
    }
}

fn exec(op: &Value) {
    let name = op["op"].as_str().unwrap_or("");
    let slot = op["slot"].as_u64().unwrap_or(0) as usize % NSLOTS;
    match name {
        "new" => {
            if !slot_free(slot) {
                return;
            }
            let site = op["site"].as_u64().unwrap_or(0) as usize % sites::N;
            let d = cur_default();
            let uid = new_uid();
            let pk = op["parent"].as_i64().unwrap_or(-1);
            let acc = accepts(d, site);
            // explicit parent only if it lives in the collector that will create the span
            let mut explicit: Option<SlotE> = None;
            if pk >= 0 {
                if let Some(p) = take_slot(pk as usize % NSLOTS) {
                    if p.k == d && !p.disabled && d >= 0 {
                        explicit = Some(p);
                    } else {
                        m(|mo| mo.slots[pk as usize % NSLOTS] = Some(p));
                    }
                }
            }
            let span = if pk == -2 {
                if acc {
                    expect(d, "new_span", uid, 0);
                }
                sites::make_root_span(site, uid)
            } else if let Some(p) = explicit {
                if acc {
                    expect(d, "new_span", uid, p.uid);
                }
                let s = sites::make_child_span(site, uid, &p.span);
                m(|mo| mo.slots[pk as usize % NSLOTS] = Some(p));
                s
            } else {
                if acc {
                    expect(d, "new_span", uid, stack_top(d));
                }
                sites::make_span(site, uid)
            };
            let disabled = span.is_disabled();
            m(|mo| mo.slots[slot] = Some(SlotE { span, uid, k: if acc { d } else { -1 }, disabled }));
            if acc && disabled {
                note(format!("span uid {uid} at site {site} should be enabled under collector {d} but the handle is disabled"));
            }
            if !acc && !disabled && d >= 0 {
                note(format!("span uid {uid} at site {site} should be disabled under collector {d} but the handle is enabled"));
            }
        }
        "clone" => {
            let b = op["b"].as_u64().unwrap_or(0) as usize % NSLOTS;
            if b == slot || !slot_free(b) {
                return;
            }
            if let Some(e) = take_slot(slot) {
                if !e.disabled {
                    expect(e.k, "clone_span", e.uid, 0);
                }
                let c = e.span.clone();
                let ne = SlotE { span: c, uid: e.uid, k: e.k, disabled: e.disabled };
                m(|mo| {
                    mo.slots[slot] = Some(e);
                    mo.slots[b] = Some(ne);
                });
            }
        }
        "drop" => {
            if let Some(e) = take_slot(slot) {
                drop_handle(e);
            }
        }
        "entered" => {
            let g = op["g"].as_u64().unwrap_or(0) as usize % NGUARDS;
            let free = TC.with(|tc| tc.borrow().guards[g].is_none());
            if !free {
                return;
            }
            if let Some(e) = take_slot(slot) {
                if !e.disabled {
                    expect(e.k, "enter", e.uid, 0);
                    stack_push_h(e.k, e.uid, e.span.id().map_or(0, |i| i.into_u64()));
                }
                let guard = e.span.entered();
                TC.with(|tc| tc.borrow_mut().guards[g] = Some(GuardE { g: guard, uid: e.uid, k: e.k, disabled: e.disabled }));
            }
        }
        "exit_owned" => {
            let g = op["g"].as_u64().unwrap_or(0) as usize % NGUARDS;
            let ge = TC.with(|tc| tc.borrow_mut().guards[g].take());
            if let Some(ge) = ge {
                if !ge.disabled {
                    expect(ge.k, "exit", ge.uid, 0);
                    stack_pop_h(ge.k, ge.uid, ge.g.id().map_or(0, |i| i.into_u64()));
                }
                if op["xpanic"].as_bool().unwrap_or(false) && !ge.disabled {
                    // fault: the collector's `exit` panics (caught). The span has been exited - once - and the handle
                    // the guard owned is dropped by the unwinding: one close notification, nothing else
                    expect(ge.k, "try_close", ge.uid, 0);
                    crate::rec::PANIC_NEXT_EXIT.with(|c| c.set(true));
                    let r = std::panic::catch_unwind(std::panic::AssertUnwindSafe(move || ge.g.exit()));
                    crate::rec::PANIC_NEXT_EXIT.with(|c| c.set(false));
                    drop(r);
                    return;
                }
                let span = ge.g.exit();
                put_slot(slot, SlotE { span, uid: ge.uid, k: ge.k, disabled: ge.disabled });
            }
        }
        "drop_guard" => {
            let g = op["g"].as_u64().unwrap_or(0) as usize % NGUARDS;
            let ge = TC.with(|tc| tc.borrow_mut().guards[g].take());
            if let Some(ge) = ge {
                if !ge.disabled {
                    expect(ge.k, "exit", ge.uid, 0);
                    stack_pop_h(ge.k, ge.uid, ge.g.id().map_or(0, |i| i.into_u64()));
                    expect(ge.k, "try_close", ge.uid, 0);
                }
                drop(ge.g);
            }
        }
        "in_scope" | "enter_scope" => {
            if let Some(e) = take_slot(slot) {
                let body: Vec<Value> = op["body"].as_array().cloned().unwrap_or_default();
                let do_panic = op["panic"].as_bool().unwrap_or(false);
                if !e.disabled {
                    expect(e.k, "enter", e.uid, 0);
                    stack_push(e.k, e.uid);
                }
                let r = std::panic::catch_unwind(std::panic::AssertUnwindSafe(|| {
                    let run = || {
                        for b in &body {
                            exec(b);
                        }
                        if do_panic {
                            fault("panic_in_closure");
                            panic!("injected panic inside a span scope");
                        }
                    };
                    if name == "in_scope" {
                        e.span.in_scope(run)
                    } else {
                        let _g = e.span.enter();
                        run()
                    }
                }));
                let _ = r;
                if !e.disabled {
                    expect(e.k, "exit", e.uid, 0);
                    stack_pop(e.k, e.uid);
                }
                put_slot(slot, e);
            }
        }
        "record" => {
            if let Some(e) = take_slot(slot) {
                let v = new_uid();
                if !e.disabled {
                    expect(e.k, "record", e.uid, v);
                }
                e.span.record("late", v);
                m(|mo| mo.slots[slot] = Some(e));
            }
        }
        "follows" => {
            let b = op["b"].as_u64().unwrap_or(0) as usize % NSLOTS;
            if b == slot {
                return;
            }
            let (a, bb) = (take_slot(slot), take_slot(b));
            if let (Some(a), Some(bb)) = (&a, &bb) {
                if !a.disabled && !bb.disabled && a.k == bb.k && a.k >= 0 {
                    expect(a.k, "follows_from", a.uid, bb.uid);
                    a.span.follows_from(&bb.span);
                }
            }
            m(|mo| {
                mo.slots[slot] = a;
                mo.slots[b] = bb;
            });
        }
        "current" => {
            if !slot_free(slot) {
                return;
            }
            let (k, uid) = model_current();
            let span = Span::current();
            let disabled = span.is_disabled();
            if (uid != 0) == disabled {
                note(format!("Span::current() is {} but the model's current span is uid {uid}", if disabled { "none" } else { "some" }));
            }
            m(|mo| mo.slots[slot] = Some(SlotE { span, uid, k, disabled }));
        }
        "or_current" => {
            if let Some(e) = take_slot(slot) {
                if e.disabled {
                    let (k, uid) = model_current();
                    let span = e.span.or_current();
                    let disabled = span.is_disabled();
                    m(|mo| mo.slots[slot] = Some(SlotE { span, uid, k, disabled }));
                } else {
                    let span = e.span.or_current();
                    m(|mo| mo.slots[slot] = Some(SlotE { span, uid: e.uid, k: e.k, disabled: false }));
                }
            }
        }
        "emit" => {
            let site = op["site"].as_u64().unwrap_or(0) as usize % sites::N;
            let d = cur_default();
            let uid = new_uid();
            if accepts(d, site) {
                expect(d, "event", uid, stack_top(d));
            }
            sites::emit_event(site, uid);
        }
        "switch_default" => {
            let k = op["k"].as_i64().unwrap_or(-1);
            let d = if k >= 0 { m(|mo| mo.collectors[k as usize % 2].clone()) } else { Dispatch::none() };
            let k = if k >= 0 { k % 2 } else { -1 };
            let depth = TC.with(|tc| tc.borrow().defaults.len());
            if depth < 3 {
                let g = dispatch::set_default(&d);
                TC.with(|tc| tc.borrow_mut().defaults.push((g, k)));
            }
        }
        "restore_default" => {
            let g = TC.with(|tc| tc.borrow_mut().defaults.pop());
            drop(g);
        }
        "spawn" => {
            let task = op["task"].as_u64().unwrap_or(0) as usize % NTASKS;
            if m(|mo| mo.tasks[task].is_some()) {
                return;
            }
            let body: Vec<Value> = op["body"].as_array().cloned().unwrap_or_default();
            let wrap = op["wrap"].as_str().unwrap_or("instrument").to_string();
            let fut = BodyFut { ops: body, pc: 0 };
            if wrap == "in_current" {
                let (k, uid) = model_current();
                let f: BoxFut = Box::pin(fut.in_current_span());
                m(|mo| mo.tasks[task] = Some(TaskE { fut: f, uid, k, with_dispatch: None }));
                return;
            }
            if let Some(e) = take_slot(slot) {
                let (uid, k) = if e.disabled { (0, -1) } else { (e.uid, e.k) };
                let (f, wd): (BoxFut, Option<i64>) = match wrap.as_str() {
                    "tf" => (Box::pin(tracing_futures::Instrument::instrument(fut, e.span)), None),
                    "with_dispatch" => {
                        let d1 = m(|mo| mo.collectors[1].clone());
                        (Box::pin(fut.instrument(e.span).with_collector(d1)), Some(1))
                    }
                    // silenced: every poll runs under the no-op collector, whatever the polling thread's default is
                    "with_none" => (Box::pin(fut.instrument(e.span).with_collector(Dispatch::none())), Some(-1)),
                    _ => (Box::pin(fut.instrument(e.span)), None),
                };
                m(|mo| mo.tasks[task] = Some(TaskE { fut: f, uid, k, with_dispatch: wd }));
            }
        }
        "poll" => {
            let task = op["task"].as_u64().unwrap_or(0) as usize % NTASKS;
            let te = m(|mo| mo.tasks[task].take());
            if let Some(mut te) = te {
                if let Some(k) = te.with_dispatch {
                    TC.with(|tc| tc.borrow_mut().model_defaults.push(k));
                }
                expect(te.k, "enter", te.uid, 0);
                stack_push(te.k, te.uid);
                let waker = noop_waker();
                let mut cx = Context::from_waker(&waker);
                let r = std::panic::catch_unwind(std::panic::AssertUnwindSafe(|| te.fut.as_mut().poll(&mut cx)));
                expect(te.k, "exit", te.uid, 0);
                stack_pop(te.k, te.uid);
                if te.with_dispatch.is_some() {
                    TC.with(|tc| tc.borrow_mut().model_defaults.pop());
                }
                match r {
                    Ok(Poll::Pending) => m(|mo| mo.tasks[task] = Some(te)),
                    _ => drop_task(te),
                }
            }
        }
        "into_inner" => {
            let task = op["task"].as_u64().unwrap_or(0) as usize % NTASKS;
            let te = m(|mo| mo.tasks[task].take());
            if let Some(te) = te {
                if te.with_dispatch.is_some() {
                    m(|mo| mo.tasks[task] = Some(te));
                } else {
                    // taking the wrapper apart releases the span handle and nothing else: the span is not
                    // entered for the drop of a future that is handed back to the caller
                    expect(te.k, "try_close", te.uid, 0);
                    let done = te.fut.unwrap_inner();
                    assert!(done);
                }
            }
        }
        "cancel" => {
            let task = op["task"].as_u64().unwrap_or(0) as usize % NTASKS;
            let te = m(|mo| mo.tasks[task].take());
            if let Some(te) = te {
                fault("cancel_future");
                drop_task(te);
            }
        }
        "panic_here" => {
            fault("panic_in_body");
            panic!("injected panic in a future body");
        }
        _ => {}
    }
}

fn drop_task(te: TaskE) {
    // Instrumented's drop enters the span for the inner future's drop, then releases the span
    expect(te.k, "enter", te.uid, 0);
    expect(te.k, "exit", te.uid, 0);
    expect(te.k, "try_close", te.uid, 0);
    drop(te.fut);
}

fn note(s: String) {
    m(|mo| mo.notes.push(s));
}

struct BodyFut {
    ops: Vec<Value>,
    pc: usize,
}
impl Future for BodyFut {
    type Output = ();
    fn poll(mut self: Pin<&mut Self>, _cx: &mut Context<'_>) -> Poll<()> {
        while self.pc < self.ops.len() {
            let op = self.ops[self.pc].clone();
            self.pc += 1;
            if op["op"] == "yield" {
                return Poll::Pending;
            }
            exec(&op);
        }
        Poll::Ready(())
    }
}

fn noop_waker() -> Waker {
    fn clone(_: *const ()) -> RawWaker {
        RawWaker::new(std::ptr::null(), &VTABLE)
    }
    fn noop(_: *const ()) {}
    static VTABLE: RawWakerVTable = RawWakerVTable::new(clone, noop, noop, noop);
    unsafe { Waker::from_raw(RawWaker::new(std::ptr::null(), &VTABLE)) }
}

fn thread_body(t: usize, mine: Vec<(usize, Value)>, race: bool) {
    let home = m(|mo| mo.collectors[0].clone());
    let _home_guard = dispatch::set_default(&home);
    for (gi, s) in mine {
        if race {
            detsim::op_boundary("op");
        } else {
            detsim::block_until("turn", None, || TURN.load(Ordering::SeqCst) == gi);
        }
        ev(format!("op {gi} t{t} {}", s["op"].as_str().unwrap_or("")));
        exec(&s);
        if !race {
            TURN.store(gi + 1, Ordering::SeqCst);
            detsim::progress();
        }
    }
    // thread end: drop remaining guards (most recent first), restore defaults
    for g in (0..NGUARDS).rev() {
        exec(&json!({"op": "drop_guard", "g": g}));
    }
    loop {
        let g = TC.with(|tc| tc.borrow_mut().defaults.pop());
        if g.is_none() {
            break;
        }
    }
}

fn pick_parent(rng: &mut Rng) -> i64 {
    let e = rng.below(NSLOTS as u64) as i64;
    *rng.pick(&[-1i64, -1, -2, e])
}

fn gen_body(rng: &mut Rng, depth: u32, in_task: bool) -> Vec<Value> {
    let n = rng.range(0, 4);
    let mut v = vec![];
    for _ in 0..n {
        let slot = rng.below(NSLOTS as u64);
        v.push(match rng.below(10) {
            0 | 1 => json!({"op": "new", "slot": slot, "site": rng.below(20), "parent": pick_parent(rng)}),
            2 => json!({"op": "drop", "slot": slot}),
            3 => json!({"op": "emit", "site": rng.below(20)}),
            4 => json!({"op": "current", "slot": slot}),
            5 => json!({"op": "record", "slot": slot}),
            6 => {
                if depth < 2 {
                    json!({"op": "in_scope", "slot": slot, "body": gen_body(rng, depth + 1, in_task), "panic": false})
                } else {
                    json!({"op": "emit", "site": rng.below(20)})
                }
            }
            7 => {
                if in_task {
                    json!({"op": "yield"})
                } else {
                    json!({"op": "clone", "slot": slot, "b": rng.below(NSLOTS as u64)})
                }
            }
            8 => {
                if in_task && rng.chance(1, 6) {
                    json!({"op": "panic_here"})
                } else {
                    json!({"op": "or_current", "slot": slot})
                }
            }
            _ => json!({"op": "clone", "slot": slot, "b": rng.below(NSLOTS as u64)}),
        });
    }
    v
}

/// Race shape: confine a step (and its nested bodies) to thread `t`'s own slots and task, and to a shared pair of
/// callsites, so that threads only meet inside tracing (first hits of the same callsite), never in the harness.
fn confine(v: &mut Value, t: u64, site_base: u64) {
    if let Some(o) = v.as_object_mut() {
        for key in ["slot", "b"] {
            if let Some(x) = o.get(key).and_then(|x| x.as_u64()) {
                o.insert(key.into(), json!(t * 4 + x % 4));
            }
        }
        if let Some(x) = o.get("parent").and_then(|x| x.as_i64()) {
            if x >= 0 {
                o.insert("parent".into(), json!(t as i64 * 4 + x % 4));
            }
        }
        if o.contains_key("task") {
            o.insert("task".into(), json!(t));
        }
        if let Some(x) = o.get("site").and_then(|x| x.as_u64()) {
            o.insert("site".into(), json!((site_base + x % 2) % 20));
        }
        if let Some(b) = o.get_mut("body").and_then(|b| b.as_array_mut()) {
            for e in b.iter_mut() {
                confine(e, t, site_base);
            }
        }
    }
}

impl Engine for SpanEngine {
    fn name(&self) -> &'static str {
        "span-sim"
    }
    fn props(&self) -> &'static [&'static str] {
        &["C03"]
    }
    fn rule(&self, _p: &str) -> String {
        "program over handle slots {new (contextual/explicit/root parent), clone, drop, entered/exit/guard drop in any order, nested in_scope/enter scopes incl. panics, record, follows_from, Span::current, or_current, switch the thread's default to the other collector or none, spawn an instrumented task (tracing Instrument, in_current_span, with_collector of the other collector or of the no-op collector, tracing-futures) whose body runs such ops with yield points, poll it on any thread, cancel it, take it apart again with into_inner} executed as a seeded total order on 1-3 threads (a sixth of the runs instead as seeded schedules at atomic-op granularity: 2-3 threads on disjoint handle slots whose first operations hit one shared pair of callsites, judged per thread), under collectors that keep ids on clone_span or (a third of the runs) hand out a fresh id per handle; non-trivial = at least one task polled on a thread other than the one that spawned it or cancelled mid-way, and at least one operation executed under a default different from the span's own collector; distinct = distinct plan digest".into()
    }
    fn components(&self) -> Value {
        json!({"real": ["tracing::Span, Entered/EnteredSpan guards, in_scope", "tracing::instrument::{Instrumented, WithDispatch}", "tracing_futures::Instrumented", "tracing-core dispatch"],
               "stub": ["collectors (RecCollect with disjoint id spaces)", "executor (seeded poll/migrate/cancel of hand-written futures with a no-op waker)"]})
    }
    fn generate(&self, g: &GenCtx) -> Value {
        let mut rng = Rng::new(g.seed);
        // a sixth of the runs are seeded schedules (atomic-op granularity) over a shared pair of callsites
        let race = rng.chance(1, 6);
        let nthreads = if race { rng.range(2, 3) } else { rng.range(1, 3) };
        let nsteps = if race { rng.range(2, 10) } else { rng.range(6, if g.tier == "thorough" { 60 } else { 40 }) };
        let mut steps = vec![];
        // (half of the race runs share a TRACE-level callsite, which the home collector usually rejects)
        let site_base = if rng.chance(1, 2) { 16 + rng.below(3) } else { rng.below(20) };
        if race {
            for t in 0..nthreads {
                steps.push(json!({"t": t, "op": "new", "slot": rng.below(4), "site": 0, "parent": *rng.pick(&[-1i64, -1, -2])}));
            }
        }
        for _ in 0..nsteps {
            let t = rng.below(nthreads);
            let slot = rng.below(NSLOTS as u64);
            let st = match rng.below(100) {
                0..=17 => json!({"t": t, "op": "new", "slot": slot, "site": rng.below(20), "parent": pick_parent(&mut rng)}),
                18..=25 => json!({"t": t, "op": "clone", "slot": slot, "b": rng.below(NSLOTS as u64)}),
                26..=35 => json!({"t": t, "op": "drop", "slot": slot}),
                36..=44 => json!({"t": t, "op": "entered", "slot": slot, "g": rng.below(NGUARDS as u64)}),
                45..=49 => json!({"t": t, "op": "exit_owned", "slot": slot, "g": rng.below(NGUARDS as u64), "xpanic": rng.chance(1, 6)}),
                50..=54 => json!({"t": t, "op": "drop_guard", "g": rng.below(NGUARDS as u64)}),
                55..=62 => json!({"t": t, "op": if rng.chance(1, 2) { "in_scope" } else { "enter_scope" }, "slot": slot, "body": gen_body(&mut rng, 0, false), "panic": rng.chance(1, 5)}),
                63..=66 => json!({"t": t, "op": "record", "slot": slot}),
                67..=69 => json!({"t": t, "op": "follows", "slot": slot, "b": rng.below(NSLOTS as u64)}),
                70..=73 => json!({"t": t, "op": "current", "slot": slot}),
                74..=76 => json!({"t": t, "op": "or_current", "slot": slot}),
                77..=79 => json!({"t": t, "op": "emit", "site": rng.below(20)}),
                80..=83 => json!({"t": t, "op": "switch_default", "k": *rng.pick(&[1i64, 1, -1, 0])}),
                84..=86 => json!({"t": t, "op": "restore_default"}),
                87..=91 => json!({"t": t, "op": "spawn", "task": rng.below(NTASKS as u64), "slot": slot, "wrap": *rng.pick(&["instrument", "instrument", "tf", "with_dispatch", "with_none", "in_current"]), "body": gen_body(&mut rng, 0, true)}),
                92..=95 => json!({"t": t, "op": "poll", "task": rng.below(NTASKS as u64)}),
                96..=97 => json!({"t": t, "op": "into_inner", "task": rng.below(NTASKS as u64)}),
                _ => json!({"t": t, "op": "cancel", "task": rng.below(NTASKS as u64)}),
            };
            steps.push(st);
        }
        if race {
            for st in steps.iter_mut() {
                let t = st["t"].as_u64().unwrap_or(0);
                confine(st, t, site_base);
            }
        }
        let sched = if race { Sched::swarm(&mut rng, 400) } else { Sched::op_order(rng.next_u64()) };
        json!({"engine": "span", "prop": g.prop, "mode": g.mode, "cfg": {"threads": nthreads, "thr0": *rng.pick(&[4u64, 4, 3, 5]), "handle_ids": rng.chance(1, 3), "race": race}, "steps": steps, "sched": serde_json::to_value(&sched).unwrap()})
    }

    fn execute(&self, plan: &Value) -> RunResult {
        let sched = plan_sched(plan);
        let nthreads = plan["cfg"]["threads"].as_u64().unwrap_or(1).max(1) as usize;
        let thr0 = plan["cfg"]["thr0"].as_u64().unwrap_or(4) as u8;
        let hid = plan["cfg"]["handle_ids"].as_bool().unwrap_or(false);
        let race = plan["cfg"]["race"].as_bool().unwrap_or(false) && sched.sync;
        let steps: Vec<Value> = plan["steps"].as_array().cloned().unwrap_or_default();
        crate::fw::SPIN_IS_VIOLATION.store(true, Ordering::SeqCst);
        std::panic::set_hook(Box::new(|_| {}));
        let steps2 = steps.clone();
        let body = move || {
            let f0 = FilterSpec { thr: thr0, targets: 15, mode: 0, dyn_targets: 0, thr2: 5, targets2: 15, hint: 0 };
            let f1 = FilterSpec::accept_all();
            let mk = |k: usize, f: FilterSpec| if hid { RecCollect::new(k, f).with_handle_ids() } else { RecCollect::new(k, f) };
            let c0 = Dispatch::new(mk(0, f0.clone()));
            let c1 = Dispatch::new(mk(1, f1.clone()));
            *MODEL.lock().unwrap() = Some(Model {
                slots: (0..NSLOTS).map(|_| None).collect(),
                tasks: (0..NTASKS).map(|_| None).collect(),
                stacks: HashMap::new(),
                expect: vec![],
                collectors: vec![c0, c1],
                filters: vec![f0, f1],
                next_uid: 0,
                notes: vec![],
            });
            let indexed: Vec<(usize, usize, Value)> = steps2.iter().enumerate().map(|(gi, s)| (gi, (s["t"].as_u64().unwrap_or(0) as usize) % nthreads, s.clone())).collect();
            TURN.store(0, Ordering::SeqCst);
            let mut tids = vec![];
            for t in 1..nthreads {
                let mine: Vec<(usize, Value)> = indexed.iter().filter(|x| x.1 == t).map(|x| (x.0, x.2.clone())).collect();
                tids.push(detsim::spawn(&format!("t{t}"), move || thread_body(t, mine, race)));
            }
            let mine: Vec<(usize, Value)> = indexed.iter().filter(|x| x.1 == 0).map(|x| (x.0, x.2.clone())).collect();
            thread_body(0, mine, race);
            for id in tids {
                detsim::join(id);
            }
            // tear-down under the home default: cancel tasks, drop handles
            let home = m(|mo| mo.collectors[0].clone());
            let _g = dispatch::set_default(&home);
            for task in 0..NTASKS {
                exec(&json!({"op": "cancel", "task": task}));
            }
            for slot in 0..NSLOTS {
                exec(&json!({"op": "drop", "slot": slot}));
            }
        };
        let finish = move || {
            let log = rec::take_log();
            let mo = MODEL.lock().unwrap().take();
            if let Some(mo) = mo {
                oracle(&steps, &mo, &log, hid, race);
            }
        };
        simulate(&plan.to_string(), &sched, None, body, finish)
    }
}

/// `true` iff `T: Send` (autoref specialisation: the inherent method exists only for `T: Send`).
struct SendProbe<T>(std::marker::PhantomData<T>);
impl<T: Send> SendProbe<T> {
    fn is_send(&self) -> bool {
        true
    }
}
trait NotSendFallback {
    fn is_send(&self) -> bool {
        false
    }
}
impl<T> NotSendFallback for SendProbe<T> {}

/// Compare the collectors' actual call sequence with the expected one and run the A3 automaton.
fn oracle(steps: &[Value], mo: &Model, log: &[Rec], per_handle: bool, race: bool) {
    // "every enter matched by one exit on the same thread" rests on the guards not being sendable
    if SendProbe::<tracing::span::Entered<'static>>(std::marker::PhantomData).is_send() || SendProbe::<tracing::span::EnteredSpan>(std::marker::PhantomData).is_send() {
        violation("guard-is-send", "span::Entered / span::EnteredSpan implement Send: a guard can be dropped (and its span exited) on another thread than the one that entered it");
        return;
    }
    if let Some(n) = mo.notes.first() {
        violation("enabled-mismatch", n.clone());
        return;
    }
    // (k, id) -> uid from new_span records
    let mut uid_of: HashMap<(usize, u64), u64> = HashMap::new();
    let mut actual: Vec<Exp> = vec![];
    // per-handle ids (a collector whose clone_span returns a fresh id): alias -> id returned by new_span, and the
    // life of every issued id (true = its handle has been closed)
    let mut alias: HashMap<(usize, u64), u64> = HashMap::new();
    let mut id_closed: HashMap<(usize, u64), bool> = HashMap::new();
    for r in log {
        if !matches!(r.kind, "new_span" | "clone_span" | "try_close" | "enter" | "exit" | "record" | "follows_from" | "event") {
            continue;
        }
        let raw = r.id;
        let mut r = r.clone();
        if r.kind != "event" {
            if let Some(c) = id_closed.get(&(r.k, raw)) {
                if *c && per_handle {
                    violation("use-after-handle-close", format!("collector {} received {} with id {} after the handle that owned this id was closed (per-handle ids)", r.k, r.kind, raw));
                    return;
                }
            }
        }
        match r.kind {
            "new_span" => {
                id_closed.insert((r.k, raw), false);
            }
            "clone_span" if r.id2 != 0 => {
                let root = alias.get(&(r.k, raw)).copied().unwrap_or(raw);
                alias.insert((r.k, r.id2), root);
                id_closed.insert((r.k, r.id2), false);
            }
            "try_close" => {
                if per_handle {
                    match id_closed.get_mut(&(r.k, raw)) {
                        Some(c) if !*c => *c = true,
                        Some(_) => {
                            violation("handle-closed-twice", format!("collector {} received a second try_close for id {} (per-handle ids: one id per handle)", r.k, raw));
                            return;
                        }
                        None => {}
                    }
                }
            }
            _ => {}
        }
        // from here on ids are the span's own (root) id
        r.id = alias.get(&(r.k, r.id)).copied().unwrap_or(r.id);
        if r.kind != "clone_span" {
            r.id2 = alias.get(&(r.k, r.id2)).copied().unwrap_or(r.id2);
        }
        let r = &r;
        // id spaces are disjoint: a call carrying another collector's id went to the wrong collector
        let lo = 1 + r.k as u64 * 1_000_000;
        let in_space = |id: u64| id == 0 || (id >= lo && id < lo + 1_000_000);
        if r.kind != "event" && (!in_space(r.id) || (r.kind == "follows_from" && !in_space(r.id2))) {
            violation("wrong-collector", format!("collector {} received {} for id {} which belongs to another collector", r.k, r.kind, r.id));
            return;
        }
        if r.kind == "new_span" {
            uid_of.insert((r.k, r.id), r.val);
        }
        let uid = if r.kind == "event" { r.val } else { uid_of.get(&(r.k, r.id)).copied().unwrap_or(0) };
        let aux = match r.kind {
            "new_span" | "event" | "follows_from" => uid_of.get(&(r.k, r.id2)).copied().unwrap_or(0),
            "record" => r.val,
            _ => 0,
        };
        actual.push(Exp { k: r.k as i64, kind: r.kind, uid, aux, t: r.thread });
    }
    // A3 automaton over the actual sequence
    let mut handles: HashMap<(i64, u64), i64> = HashMap::new();
    let mut entered: HashMap<(i64, u64, usize), i64> = HashMap::new();
    for a in &actual {
        let key = (a.k, a.uid);
        match a.kind {
            "new_span" => {
                if handles.insert(key, 1).is_some() {
                    violation("dup-new-span", format!("collector {} saw a second new_span for uid {}", a.k, a.uid));
                    return;
                }
            }
            "event" => {}
            _ => {
                let h = handles.get(&key).copied();
                match h {
                    None => {
                        violation("unknown-span", format!("collector {} received {} for a span it never created (uid {})", a.k, a.kind, a.uid));
                        return;
                    }
                    Some(n) if n <= 0 => {
                        violation("use-after-close", format!("collector {} received {} for uid {} after its last handle's close notification", a.k, a.kind, a.uid));
                        return;
                    }
                    _ => {}
                }
                match a.kind {
                    "clone_span" => *handles.get_mut(&key).unwrap() += 1,
                    "try_close" => *handles.get_mut(&key).unwrap() -= 1,
                    "enter" => *entered.entry((a.k, a.uid, a.t)).or_insert(0) += 1,
                    "exit" => {
                        let e = entered.entry((a.k, a.uid, a.t)).or_insert(0);
                        if *e <= 0 {
                            violation("exit-without-enter", format!("collector {} saw exit of uid {} on thread {} without a matching enter on that thread", a.k, a.uid, a.t));
                            return;
                        }
                        *e -= 1;
                    }
                    _ => {}
                }
            }
        }
    }
    if per_handle {
        let mut open: Vec<(usize, u64)> = id_closed.iter().filter(|(_, c)| !**c).map(|(k, _)| *k).collect();
        open.sort();
        if let Some((k, id)) = open.first() {
            violation("handle-never-closed", format!("at quiescence collector {k} never received try_close for id {id} although every handle was dropped (per-handle ids)"));
            return;
        }
    }
    for ((k, uid), n) in &handles {
        if *n != 0 {
            violation(if *n > 0 { "leaked-ref" } else { "double-close" }, format!("at quiescence collector {k} has {n} outstanding references for span uid {uid} although every handle was dropped"));
            return;
        }
    }
    for ((k, uid, t), n) in &entered {
        if *n != 0 {
            violation("unbalanced-enter", format!("collector {k}: span uid {uid} has {n} unmatched enters on thread {t}"));
            return;
        }
    }
    if race {
        // under a seeded schedule the threads' calls interleave freely: the exact sequence is judged per thread
        let nthreads = actual.iter().chain(mo.expect.iter()).map(|e| e.t).max().map_or(0, |t| t + 1);
        for t in 0..nthreads {
            let a: Vec<&Exp> = actual.iter().filter(|e| e.t == t).collect();
            let e: Vec<&Exp> = mo.expect.iter().filter(|e| e.t == t).collect();
            let n = a.len().min(e.len());
            for i in 0..n {
                if a[i] != e[i] {
                    violation("protocol-mismatch", format!("thread {t} call #{i}: expected {:?} but the collector saw {:?}", e[i], a[i]));
                    return;
                }
            }
            if a.len() != e.len() {
                let extra = if a.len() > n { format!("unexpected extra call {:?}", a[n]) } else { format!("missing call {:?}", e[n]) };
                violation("protocol-mismatch", format!("thread {t}: {} calls seen, {} expected: {extra}", a.len(), e.len()));
                return;
            }
        }
        nontrivial();
        return;
    }
    // exact sequence
    let n = actual.len().min(mo.expect.len());
    for i in 0..n {
        if actual[i] != mo.expect[i] {
            violation("protocol-mismatch", format!("call #{i}: expected {:?} but the collector saw {:?}", mo.expect[i], actual[i]));
            return;
        }
    }
    if actual.len() != mo.expect.len() {
        let extra = if actual.len() > n { format!("unexpected extra call {:?}", actual[n]) } else { format!("missing call {:?}", mo.expect[n]) };
        violation("protocol-mismatch", format!("{} calls seen, {} expected: {extra}", actual.len(), mo.expect.len()));
        return;
    }
    // non-triviality
    let mut spawn_thread: HashMap<u64, u64> = HashMap::new();
    let mut cross = false;
    let mut switched = false;
    for s in steps {
        match s["op"].as_str().unwrap_or("") {
            "spawn" => {
                spawn_thread.insert(s["task"].as_u64().unwrap_or(0) % NTASKS as u64, s["t"].as_u64().unwrap_or(0));
            }
            "poll" | "cancel" => {
                if let Some(t0) = spawn_thread.get(&(s["task"].as_u64().unwrap_or(0) % NTASKS as u64)) {
                    if *t0 != s["t"].as_u64().unwrap_or(0) || s["op"] == "cancel" {
                        cross = true;
                    }
                }
            }
            "switch_default" => switched = true,
            _ => {}
        }
    }
    if cross && switched && actual.len() > 8 {
        nontrivial();
    }
}
