//! C09, filter wrappers: a recording per-layer `Filter` wrapped (nested) in the provided pass-through
//! wrappers {Box, Arc, Some, reload} must observe, answer and let its neighbours observe exactly what the
//! same filter observes unwrapped. Differential twin: the same history runs under the wrapped stack and
//! under the plain stack; every operation's callbacks (filter, filtered leaf, unfiltered neighbour) must agree.
use crate::fw::*;
use crate::rec::site_of;
use crate::reclayer::{self, LRec, LLOG};
use crate::sites;
use detsim::Rng;
use serde_json::{json, Value};
use std::sync::atomic::{AtomicI64, AtomicU64, Ordering};
use std::sync::Arc;
use tracing_core::dispatch::{self, Dispatch};
use tracing_core::span::{Attributes, Id, Record};
use tracing_core::{Collect, Event, Interest, LevelFilter, Metadata};
use tracing_subscriber::prelude::*;
use tracing_subscriber::registry::LookupSpan;
use tracing_subscriber::subscribe::{Context, Filter, Subscribe};
use tracing_subscriber::Registry;

type BoxF = Box<dyn Filter<Registry> + Send + Sync + 'static>;

#[derive(Default)]
pub struct FCfg {
    veto_enabled_site: AtomicI64,
    veto_event_val: AtomicU64,
}

struct ValVisitor(u64);
impl tracing_core::field::Visit for ValVisitor {
    fn record_u64(&mut self, field: &tracing_core::field::Field, value: u64) {
        if field.name() == "val" || field.name() == "late" {
            self.0 = value;
        }
    }
    fn record_debug(&mut self, _f: &tracing_core::field::Field, _v: &dyn std::fmt::Debug) {}
}

fn push(rep: usize, layer: usize, mut r: LRec) {
    r.stamp = detsim::stamp();
    r.thread = detsim::current();
    r.stack = rep;
    r.layer = layer;
    ev(format!("R{rep} L{layer} {} id{} v{} s{} f{}", r.kind, r.id, r.val, r.site, r.flag));
    LLOG.lock().unwrap().push(r);
}
fn meta_rec(meta: &Metadata<'_>, kind: &'static str) -> LRec {
    let (site, skind, name) = site_of(meta);
    LRec { kind, site, skind, name, ..Default::default() }
}

/// The recording filter (layer number 100 in the log).
pub struct RecFilter {
    rep: usize,
    cfg: Arc<FCfg>,
}
impl<C: Collect + for<'a> LookupSpan<'a>> Filter<C> for RecFilter {
    fn enabled(&self, meta: &Metadata<'_>, _cx: &Context<'_, C>) -> bool {
        let mut r = meta_rec(meta, "f_enabled");
        let veto = self.cfg.veto_enabled_site.load(Ordering::SeqCst);
        r.flag = !(veto >= 0 && veto == r.site as i64);
        let f = r.flag;
        push(self.rep, 100, r);
        f
    }
    fn callsite_enabled(&self, meta: &'static Metadata<'static>) -> Interest {
        push(self.rep, 100, meta_rec(meta, "f_callsite_enabled"));
        Interest::sometimes()
    }
    fn max_level_hint(&self) -> Option<LevelFilter> {
        None
    }
    fn event_enabled(&self, event: &Event<'_>, _cx: &Context<'_, C>) -> bool {
        let mut r = meta_rec(event.metadata(), "f_event_enabled");
        let mut v = ValVisitor(0);
        event.record(&mut v);
        r.val = v.0;
        let veto = self.cfg.veto_event_val.load(Ordering::SeqCst);
        r.flag = !(veto != 0 && veto == v.0);
        let f = r.flag;
        push(self.rep, 100, r);
        f
    }
    fn on_new_span(&self, attrs: &Attributes<'_>, id: &Id, _ctx: Context<'_, C>) {
        let mut r = meta_rec(attrs.metadata(), "f_on_new_span");
        let mut v = ValVisitor(0);
        attrs.record(&mut v);
        r.val = v.0;
        r.id = id.into_u64();
        push(self.rep, 100, r);
    }
    fn on_record(&self, id: &Id, values: &Record<'_>, _ctx: Context<'_, C>) {
        let mut v = ValVisitor(0);
        values.record(&mut v);
        push(self.rep, 100, LRec { kind: "f_on_record", id: id.into_u64(), val: v.0, ..Default::default() });
    }
    fn on_enter(&self, id: &Id, _ctx: Context<'_, C>) {
        push(self.rep, 100, LRec { kind: "f_on_enter", id: id.into_u64(), ..Default::default() });
    }
    fn on_exit(&self, id: &Id, _ctx: Context<'_, C>) {
        push(self.rep, 100, LRec { kind: "f_on_exit", id: id.into_u64(), ..Default::default() });
    }
    fn on_close(&self, id: Id, _ctx: Context<'_, C>) {
        push(self.rep, 100, LRec { kind: "f_on_close", id: id.into_u64(), ..Default::default() });
    }
}

/// A plain recording leaf (layer 0 = behind the filter, layer 1 = unfiltered neighbour).
struct Leaf {
    rep: usize,
    layer: usize,
}
impl<C: Collect> Subscribe<C> for Leaf {
    fn register_callsite(&self, m: &'static Metadata<'static>) -> Interest {
        push(self.rep, self.layer, meta_rec(m, "register_callsite"));
        Interest::always()
    }
    fn on_new_span(&self, attrs: &Attributes<'_>, id: &Id, _ctx: Context<'_, C>) {
        let mut r = meta_rec(attrs.metadata(), "on_new_span");
        let mut v = ValVisitor(0);
        attrs.record(&mut v);
        r.val = v.0;
        r.id = id.into_u64();
        push(self.rep, self.layer, r);
    }
    fn on_record(&self, id: &Id, values: &Record<'_>, _ctx: Context<'_, C>) {
        let mut v = ValVisitor(0);
        values.record(&mut v);
        push(self.rep, self.layer, LRec { kind: "on_record", id: id.into_u64(), val: v.0, ..Default::default() });
    }
    fn on_event(&self, event: &Event<'_>, _ctx: Context<'_, C>) {
        let mut r = meta_rec(event.metadata(), "on_event");
        let mut v = ValVisitor(0);
        event.record(&mut v);
        r.val = v.0;
        push(self.rep, self.layer, r);
    }
    fn on_enter(&self, id: &Id, _ctx: Context<'_, C>) {
        push(self.rep, self.layer, LRec { kind: "on_enter", id: id.into_u64(), ..Default::default() });
    }
    fn on_exit(&self, id: &Id, _ctx: Context<'_, C>) {
        push(self.rep, self.layer, LRec { kind: "on_exit", id: id.into_u64(), ..Default::default() });
    }
    fn on_close(&self, id: Id, _ctx: Context<'_, C>) {
        push(self.rep, self.layer, LRec { kind: "on_close", id: id.into_u64(), ..Default::default() });
    }
}

fn build_filter(v: &Value, rep: usize, cfg: &Arc<FCfg>) -> BoxF {
    match v["k"].as_str().unwrap_or("") {
        "box" => Box::new(build_filter(&v["c"], rep, cfg)),
        "arc" => {
            let inner: Arc<dyn Filter<Registry> + Send + Sync + 'static> = Arc::from(build_filter(&v["c"], rep, cfg));
            Box::new(inner)
        }
        "some" => Box::new(Some(build_filter(&v["c"], rep, cfg))),
        "reload" => {
            let (f, _handle) = tracing_subscriber::reload::Subscriber::new(build_filter(&v["c"], rep, cfg));
            Box::new(f)
        }
        _ => Box::new(RecFilter { rep, cfg: cfg.clone() }),
    }
}

fn gen_wrapper(rng: &mut Rng, depth: u32) -> Value {
    if depth >= 3 || (depth > 0 && rng.chance(1, 3)) {
        return json!({"k": "rf"});
    }
    json!({"k": *rng.pick(&["box", "arc", "some", "reload", "reload"]), "c": gen_wrapper(rng, depth + 1)})
}

pub fn generate(rng: &mut Rng, prop: &str, mode: &str, thorough: bool) -> Value {
    let n = rng.range(4, if thorough { 30 } else { 18 });
    let mut steps = vec![];
    for _ in 0..n {
        let slot = rng.below(4);
        let site = rng.below(20);
        steps.push(match rng.below(100) {
            0..=21 => json!({"op": "span", "slot": slot, "site": site}),
            22..=33 => json!({"op": "drop", "slot": slot}),
            34..=47 => json!({"op": "enter", "slot": slot}),
            48..=59 => json!({"op": "exit"}),
            60..=69 => json!({"op": "record", "slot": slot}),
            _ => json!({"op": "event", "site": site}),
        });
    }
    let evs: Vec<usize> = steps.iter().enumerate().filter(|(_, s)| s["op"] == "event").map(|(i, _)| i).collect();
    let veto_event = if !evs.is_empty() && rng.chance(1, 2) { *rng.pick(&evs) as i64 } else { -1 };
    let veto_site = if rng.chance(1, 3) { rng.below(20) as i64 } else { -1 };
    let sched = Sched::op_order(rng.next_u64());
    json!({"engine": "wrap", "prop": prop, "mode": mode,
        "cfg": {"fw": gen_wrapper(rng, 0), "neighbour": rng.chance(1, 2), "veto_event_step": veto_event, "veto_site": veto_site},
        "steps": steps, "sched": serde_json::to_value(&sched).unwrap()})
}

#[derive(Clone, Debug, Default)]
struct H {
    rep: usize,
    gi: usize,
    op: String,
    inv: u64,
    ret: u64,
    applied: bool,
}

pub fn execute(plan: &Value) -> RunResult {
    let sched = plan_sched(plan);
    let cfg = plan["cfg"].clone();
    let steps: Vec<Value> = plan["steps"].as_array().cloned().unwrap_or_default();
    let hist: Arc<std::sync::Mutex<Vec<H>>> = Arc::new(std::sync::Mutex::new(vec![]));
    let hist2 = hist.clone();
    let cfg2 = cfg.clone();
    let body = move || {
        for rep in 0..2usize {
            let fc = Arc::new(FCfg::default());
            fc.veto_enabled_site.store(cfg2["veto_site"].as_i64().unwrap_or(-1), Ordering::SeqCst);
            let ves = cfg2["veto_event_step"].as_i64().unwrap_or(-1);
            if ves >= 0 {
                fc.veto_event_val.store((ves as u64 + 1) * 1000, Ordering::SeqCst);
            }
            // replica 0: the wrapped filter; replica 1: the same filter bare
            let filter: BoxF = if rep == 0 { build_filter(&cfg2["fw"], rep, &fc) } else { Box::new(RecFilter { rep, cfg: fc.clone() }) };
            let neighbour: Option<Leaf> = if cfg2["neighbour"].as_bool().unwrap_or(false) { Some(Leaf { rep, layer: 1 }) } else { None };
            let d = Dispatch::new(Registry::default().with(Leaf { rep, layer: 0 }.with_filter(filter)).with(neighbour));
            let _g = dispatch::set_default(&d);
            let mut slots: Vec<Option<tracing::Span>> = (0..4).map(|_| None).collect();
            let mut entered: Vec<(Id, Dispatch)> = vec![];
            let mut run = |gi: usize, s: &Value, slots: &mut Vec<Option<tracing::Span>>, entered: &mut Vec<(Id, Dispatch)>| {
                let op = s["op"].as_str().unwrap_or("").to_string();
                let slot = s["slot"].as_u64().unwrap_or(0) as usize % 4;
                let site = s["site"].as_u64().unwrap_or(0) as usize % sites::N;
                let uid = (gi as u64 + 1) * 1000;
                let mut h = H { rep, gi, op: op.clone(), applied: true, ..Default::default() };
                h.inv = detsim::stamp();
                match op.as_str() {
                    "span" => {
                        if slots[slot].is_some() {
                            h.applied = false;
                        } else {
                            slots[slot] = Some(sites::make_root_span(site, uid));
                        }
                    }
                    "drop" => match slots[slot].take() {
                        Some(sp) => drop(sp),
                        None => h.applied = false,
                    },
                    "enter" => match slots[slot].as_ref().and_then(|sp| sp.with_collector(|(id, d)| (id.clone(), d.clone()))) {
                        Some((id, d)) if !entered.iter().any(|e| e.0 == id) => {
                            d.enter(&id);
                            entered.push((id, d));
                        }
                        _ => h.applied = false,
                    },
                    "exit" => match entered.pop() {
                        Some((id, d)) => d.exit(&id),
                        None => h.applied = false,
                    },
                    "record" => match slots[slot].as_ref() {
                        Some(sp) if !sp.is_disabled() => {
                            sp.record("late", uid);
                        }
                        _ => h.applied = false,
                    },
                    "event" => sites::emit_event_root(site, uid),
                    _ => h.applied = false,
                }
                h.ret = detsim::stamp();
                hist2.lock().unwrap().push(h);
            };
            for (gi, s) in steps.iter().enumerate() {
                run(gi, s, &mut slots, &mut entered);
            }
            let mut n = 0;
            while !entered.is_empty() {
                run(1_000_000 + n, &json!({"op": "exit"}), &mut slots, &mut entered);
                n += 1;
            }
            for slot in 0..4 {
                run(2_000_000 + slot, &json!({"op": "drop", "slot": slot}), &mut slots, &mut entered);
            }
        }
    };
    let finish = move || {
        let hist = hist.lock().unwrap().clone();
        let log = reclayer::take_llog();
        let _ = crate::rec::take_log();
        oracle(&cfg, &hist, &log);
    };
    simulate(&plan.to_string(), &sched, None, body, finish)
}

fn oracle(cfg: &Value, hist: &[H], log: &[LRec]) {
    // registration-time callbacks depend on which dispatchers exist at that moment, not on the wrapper
    let judged = |k: &str| !matches!(k, "register_callsite" | "f_callsite_enabled");
    let view = |h: &H| -> Vec<(usize, &'static str, i32, u64, bool)> {
        log.iter().filter(|r| r.stack == h.rep && r.stamp > h.inv && r.stamp < h.ret && judged(r.kind)).map(|r| (r.layer, r.kind, r.site, r.val, r.flag)).collect()
    };
    let mut filter_calls = 0usize;
    let mut vetoed = false;
    for a in hist.iter().filter(|h| h.rep == 0) {
        let b = match hist.iter().find(|h| h.rep == 1 && h.gi == a.gi) {
            Some(b) => b,
            None => continue,
        };
        if a.applied != b.applied {
            violation("wrapper-changes-history", format!("op {} ({}) applied={} under the wrapped filter but {} under the bare one; wrapper {}", a.gi, a.op, a.applied, b.applied, cfg["fw"]));
            return;
        }
        let (va, vb) = (view(a), view(b));
        if va != vb {
            let class = if va.len() < vb.len() { "notification-missing" } else if va.len() > vb.len() { "notification-unexpected" } else { "notification-differs" };
            violation(class, format!("op {} ({}): callbacks (layer 100 = the filter, 0 = its layer, 1 = the neighbour) with the filter wrapped as {}: {:?}; with the bare filter: {:?}", a.gi, a.op, cfg["fw"], va, vb));
            return;
        }
        // absolute rules on the filter's own calls (they hold for the bare filter as well): a filter that rejected
        // the metadata is not asked about the event, and is asked at most once
        for (who, v) in [("wrapped", &va), ("bare", &vb)] {
            let rejected = v.iter().any(|x| x.0 == 100 && x.1 == "f_enabled" && !x.4);
            let asked = v.iter().filter(|x| x.0 == 100 && x.1 == "f_event_enabled").count();
            if (rejected && asked > 0) || asked > 1 {
                violation("filter-asked-after-rejecting", format!("op {} ({}), {who} filter: enabled answered {} and event_enabled was then called {} time(s): {:?}", a.gi, a.op, if rejected { "false" } else { "true" }, asked, v));
                return;
            }
        }
        filter_calls += va.iter().filter(|x| x.0 == 100).count();
        if va.iter().any(|x| x.0 == 100 && !x.4 && (x.1 == "f_enabled" || x.1 == "f_event_enabled")) {
            vetoed = true;
        }
    }
    if filter_calls >= 6 && vetoed && cfg["fw"]["k"] != "rf" {
        nontrivial();
    }
}
