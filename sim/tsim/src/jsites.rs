//! Callsites for C14: hostile static strings (targets, span names, field names) and typed values.
#![allow(clippy::all)]
use tracing::field::Empty;
use tracing::Level;

pub const HOSTILE_TARGET: &str = "tar\"get\\x\u{1}\u{2028}\ttab";
pub const HOSTILE_SPAN: &str = "na\"me\\\u{7f}\u{2029}\u{1F600}\nnl";

#[derive(Clone, Debug)]
pub struct Vals {
    pub s: String,
    pub s2: String,
    pub u: u64,
    pub i: i64,
    pub f: f64,
    pub b: bool,
    pub big: u128,
    pub neg: i128,
}

pub struct DebugW<'a>(pub &'a str);
impl std::fmt::Debug for DebugW<'_> {
    fn fmt(&self, f: &mut std::fmt::Formatter<'_>) -> std::fmt::Result {
        f.write_str(self.0)
    }
}
pub struct DisplayW<'a>(pub &'a str);
impl std::fmt::Display for DisplayW<'_> {
    fn fmt(&self, f: &mut std::fmt::Formatter<'_>) -> std::fmt::Result {
        f.write_str(self.0)
    }
}
#[derive(Debug)]
pub struct ErrW(pub String);
impl std::fmt::Display for ErrW {
    fn fmt(&self, f: &mut std::fmt::Formatter<'_>) -> std::fmt::Result {
        f.write_str(&self.0)
    }
}
impl std::error::Error for ErrW {}

pub struct PanicOnDebug;
impl std::fmt::Debug for PanicOnDebug {
    fn fmt(&self, _f: &mut std::fmt::Formatter<'_>) -> std::fmt::Result {
        panic!("injected panic in a field's Debug impl")
    }
}

pub const N_EVENT_KINDS: usize = 6;
pub const N_SPAN_KINDS: usize = 4;

/// Emit an event of the given kind. Field `uid` identifies it.
pub fn event(kind: usize, v: &Vals, uid: u64) {
    match kind {
        0 => tracing::event!(target: "plain", Level::INFO, uid = uid, s = v.s.as_str(), u = v.u, i = v.i, f = v.f, b = v.b, "msg {} end", v.s2),
        1 => tracing::event!(target: HOSTILE_TARGET, Level::WARN, uid = uid, "{}", v.s2),
        2 => tracing::event!(target: "plain", Level::ERROR, uid = uid, "fie\"ld" = v.u, "sp ace" = v.s.as_str(), "uni\u{2029}" = v.b, "ctl\u{1}x" = v.i, "emoji\u{1F600}" = v.f, "back\\slash" = v.s2.as_str()),
        3 => {
            let e = ErrW(v.s2.clone());
            tracing::event!(target: "plain", Level::DEBUG, uid = uid, d = ?DebugW(&v.s), p = %DisplayW(&v.s2), e = &e as &(dyn std::error::Error + 'static))
        }
        4 => tracing::event!(target: "plain", Level::TRACE, uid = uid, big = v.big, neg = v.neg, f = v.f, u = v.u, i = v.i),
        _ => tracing::event!(target: "plain", Level::INFO, uid = uid, bad = ?PanicOnDebug, s = v.s.as_str()),
    }
}

/// Create a span of the given kind (contextual parent).
pub fn span(kind: usize, v: &Vals, uid: u64) -> tracing::Span {
    match kind {
        0 => tracing::span!(target: "plain", Level::INFO, "plain_span", uid = uid, a = v.s.as_str(), n = v.i, later = Empty, later2 = Empty),
        1 => tracing::span!(target: HOSTILE_TARGET, Level::INFO, HOSTILE_SPAN, uid = uid, a = v.s2.as_str(), later = Empty, later2 = Empty),
        2 => tracing::span!(target: "plain", Level::INFO, "odd_fields", uid = uid, "f\"q" = v.s.as_str(), "late r" = Empty, later = Empty, later2 = Empty),
        4 => tracing::span!(target: "plain", Level::INFO, "log_named", uid = uid, login = ?DebugW(&v.s), logger = %DisplayW(&v.s2), logged_in = v.b, later = Empty, later2 = Empty),
        _ => tracing::span!(target: "plain", Level::INFO, "bad_span", uid = uid, bad = ?PanicOnDebug, later = Empty, later2 = Empty),
    }
}
