//! appender-sim, part 2: C16 — rolling appender: a write lands in its period's file; only the oldest are
//! pruned. Real `RollingFileAppender` on a private temp directory; the clock is the simulated one (hook H4).
use crate::fw::*;
use crate::time_sim::civil_from_days;
use detsim::Rng;
use serde_json::{json, Value};
use std::collections::BTreeMap;
use std::io::Write;
use std::sync::atomic::Ordering;
use std::sync::{Arc, Mutex};
use tracing_appender::rolling::{RollingFileAppender, Rotation};
use tracing_subscriber::fmt::MakeWriter;

pub struct RollingEngine;

fn period_secs(rot: &str) -> i64 {
    match rot {
        "minutely" => 60,
        "hourly" => 3600,
        "daily" => 86_400,
        _ => 0,
    }
}

/// independent naming of the file for the period containing unix time `t`
fn file_name(rot: &str, prefix: &Option<String>, suffix: &Option<String>, t: i64) -> String {
    let days = t.div_euclid(86_400);
    let sod = t.rem_euclid(86_400);
    let (y, m, d) = civil_from_days(days);
    let date = match rot {
        "minutely" => format!("{:04}-{:02}-{:02}-{:02}-{:02}", y, m, d, sod / 3600, sod / 60 % 60),
        "hourly" => format!("{:04}-{:02}-{:02}-{:02}", y, m, d, sod / 3600),
        _ => format!("{:04}-{:02}-{:02}", y, m, d),
    };
    match (rot, prefix, suffix) {
        ("never", Some(p), None) => p.clone(),
        ("never", Some(p), Some(s)) => format!("{p}.{s}"),
        ("never", None, Some(s)) => s.clone(),
        (_, Some(p), Some(s)) => format!("{p}.{date}.{s}"),
        (_, Some(p), None) => format!("{p}.{date}"),
        (_, None, Some(s)) => format!("{date}.{s}"),
        (_, None, None) => date,
    }
}

fn next_boundary(rot: &str, t: i64) -> i64 {
    let p = period_secs(rot);
    if p == 0 {
        0
    } else {
        (t + p).div_euclid(p) * p
    }
}

/// Entries that are in the log directory before the appender exists and are not the appender's: files whose
/// names do not match its prefix/suffix (or, with neither, are not dates) and a directory whose name does match.
/// They must survive every rotation and never count against the file limit.
fn decoys(cfg: &Value) -> (Vec<String>, Vec<String>) {
    if !cfg["decoys"].as_bool().unwrap_or(false) {
        return (vec![], vec![]);
    }
    match (cfg["prefix"].as_str(), cfg["suffix"].as_str()) {
        (Some(p), Some(s)) => (vec![format!("zz-other.{s}"), format!("{p}.dat")], vec![format!("{p}.archive.{s}")]),
        (Some(p), None) => (vec!["zz-other.txt".to_string()], vec![format!("{p}.archive")]),
        (None, Some(s)) => (vec!["zz-other.dat".to_string()], vec![format!("archive.{s}")]),
        (None, None) => (vec!["README".to_string()], vec!["archive".to_string()]),
    }
}
static DECOY_FILES: Mutex<Vec<String>> = Mutex::new(Vec::new());

/// Names of log files left by earlier runs (oldest first): what this appender would have written some periods ago.
fn old_logs(cfg: &Value) -> Vec<String> {
    let n = cfg["old_logs"].as_u64().unwrap_or(0) as i64;
    let rot = cfg["rot"].as_str().unwrap_or("never");
    let p = period_secs(rot);
    if n == 0 || p == 0 {
        return vec![];
    }
    let prefix = cfg["prefix"].as_str().map(|s| s.to_string());
    let suffix = cfg["suffix"].as_str().map(|s| s.to_string());
    let start = cfg["start"].as_i64().unwrap_or(0);
    (1..=n).rev().map(|k| file_name(rot, &prefix, &suffix, start - 3 * k * p)).collect()
}

fn read_dir(dir: &std::path::Path) -> BTreeMap<String, Vec<u8>> {
    let mut m = BTreeMap::new();
    let skip = DECOY_FILES.lock().unwrap().clone();
    if let Ok(rd) = std::fs::read_dir(dir) {
        for e in rd.flatten() {
            if !e.file_type().map_or(false, |t| t.is_file()) {
                continue;
            }
            if let Ok(name) = e.file_name().into_string() {
                if skip.contains(&name) {
                    continue;
                }
                m.insert(name, std::fs::read(e.path()).unwrap_or_default());
            }
        }
    }
    m
}

fn set_wall(t: i64) {
    // the simulated wall clock = base; the virtual clock only paces the scheduler
    WALL_BASE_S.store(t, Ordering::SeqCst);
    WALL_BASE_NS.store(0, Ordering::SeqCst);
    detsim::set_clock_ns(0);
}

#[derive(Clone, Debug)]
struct Phase {
    clock: i64,
    /// (thread, k) buffers written in this phase
    bufs: Vec<(usize, usize)>,
    files_before: Vec<String>,
    files_after: Vec<String>,
    /// the log directory was removed (with everything in it) just before this phase's writes
    rmdir: bool,
}

impl Engine for RollingEngine {
    fn name(&self) -> &'static str {
        "rolling-sim"
    }
    fn props(&self) -> &'static [&'static str] {
        &["C16"]
    }
    fn rule(&self, _p: &str) -> String {
        "configuration = rotation kind x prefix/suffix combination x file limit (none, 1..3) x interface (exclusive io::Write on one thread, or shared MakeWriter used by 2-4 threads under seeded schedules with preemption at every access of next_date, hooks H4/H7, and at the file lock) x (a third of the runs) foreign entries already in the directory - files that do not match prefix/suffix and a directory that does - which must survive untouched and never count against the limit x (half of the limited runs) 1-4 older log files of the appender's own naming already present, which count and are pruned first; fault: the whole log directory is removed just before a rotating write (the new period's file must be created again, earlier data is legitimately gone); history = phases of a simulated clock step (to an exact boundary, one second before it, several periods ahead, across month/year ends and leap days, standing still, stepping back) followed by writes of unique buffers; non-trivial = at least one rotation and (shared interface) at least two threads wrote in a phase that crossed a boundary, or (exclusive) a step back / stand-still occurred after a rotation; distinct = distinct (plan, schedule digest)".into()
    }
    fn components(&self) -> Value {
        json!({"real": ["tracing_appender::rolling::{RollingFileAppender, RollingWriter, Inner}", "std::fs on a private temp directory", "time crate (date arithmetic and formatting)"], "stub": ["clock (hook H4 reads the simulated wall clock)", "parking_lot RwLock around the file (cooperative)"]})
    }
    fn generate(&self, g: &GenCtx) -> Value {
        let mut rng = Rng::new(g.seed);
        let rot = *rng.pick(&["minutely", "minutely", "hourly", "daily", "never"]);
        let prefix = if rng.chance(2, 3) { json!(*rng.pick(&["app", "app.log", "svc-1"])) } else { Value::Null };
        let suffix = if rng.chance(1, 2) { json!(*rng.pick(&["log", "txt"])) } else { Value::Null };
        let limit = if rng.chance(1, 4) { json!(rng.range(1, 3)) } else { Value::Null };
        let shared = rng.chance(1, 2);
        let nthreads = if shared { rng.range(2, 4) } else { 1 };
        // start near interesting calendar points
        let year = *rng.pick(&[1971i64, 1999, 2000, 2023, 2024, 2038, 2099, 2100]);
        let (m, d) = *rng.pick(&[(1u32, 1u32), (2, 28), (2, 29), (12, 31), (6, 15), (3, 1), (10, 31)]);
        let d = if m == 2 && d == 29 && !(year % 4 == 0 && (year % 100 != 0 || year % 400 == 0)) { 28 } else { d };
        let day = crate::time_sim::days_from_civil(year, m, d);
        let start = day * 86_400 + *rng.pick(&[0i64, 86_399, 86_340, 3599, 43_200, 82_800]) - *rng.pick(&[0i64, 0, 1, 30]);
        let nphases = rng.range(2, if g.tier == "thorough" { 10 } else { 6 });
        let mut steps = vec![];
        for _ in 0..nphases {
            let clock = match rng.below(10) {
                0 | 1 => json!({"mode": "to_boundary"}),
                2 => json!({"mode": "before_boundary"}),
                3 => json!({"mode": "jump", "n": rng.range(2, 40)}),
                4 => json!({"mode": "still"}),
                5 => json!({"mode": "back", "secs": *rng.pick(&[1i64, 30, 61, 3601, 90_000])}),
                6 => json!({"mode": "after_boundary", "secs": rng.range(1, 50)}),
                _ => json!({"mode": "small", "secs": rng.range(1, 20)}),
            };
            let per: Vec<u64> = (0..nthreads).map(|_| rng.range(if shared { 1 } else { 1 }, 3)).collect();
            let rmdir = rot != "never" && rng.chance(1, 12) && matches!(clock["mode"].as_str(), Some("to_boundary") | Some("after_boundary") | Some("jump"));
            let deep = rmdir && rng.chance(1, 2);
            steps.push(json!({"clock": clock, "writes": per, "rmdir": rmdir, "rmdir_deep": deep}));
        }
        let sched = if shared { Sched::swarm(&mut rng, 200) } else { Sched::op_order(rng.next_u64()) };
        json!({"engine": "rolling", "prop": g.prop, "mode": g.mode, "cfg": {"rot": rot, "prefix": prefix, "suffix": suffix, "limit": limit, "shared": shared, "threads": nthreads, "start": start, "decoys": rng.chance(1, 3), "old_logs": if !limit.is_null() && rot != "never" && (!prefix.is_null() || !suffix.is_null()) && rng.chance(1, 2) { rng.range(1, 4) } else { 0 }}, "steps": steps, "sched": serde_json::to_value(&sched).unwrap(), "hang_is_violation": true})
    }

    fn execute(&self, plan: &Value) -> RunResult {
        let sched = plan_sched(plan);
        let cfg = plan["cfg"].clone();
        let steps: Vec<Value> = plan["steps"].as_array().cloned().unwrap_or_default();
        let result: Arc<Mutex<Vec<Phase>>> = Arc::new(Mutex::new(vec![]));
        let result2 = result.clone();
        // the log directory sits two levels below a scratch root, so that "the directory vanished" can mean the
        // directory itself or the tree above it
        let root = std::env::temp_dir().join(format!("tsim-rolling-{}", std::process::id()));
        let dir = root.join("logs").join("app");
        let _ = std::fs::remove_dir_all(&root);
        let _ = std::fs::create_dir_all(&dir);
        let dir2 = dir.clone();
        let root2 = root.clone();
        let cfg2 = cfg.clone();
        let final_files: Arc<Mutex<BTreeMap<String, Vec<u8>>>> = Arc::new(Mutex::new(BTreeMap::new()));
        let ff2 = final_files.clone();
        let body = move || {
            let rot = cfg2["rot"].as_str().unwrap_or("never").to_string();
            let shared = cfg2["shared"].as_bool().unwrap_or(false);
            let nthreads = cfg2["threads"].as_u64().unwrap_or(1) as usize;
            let limit = cfg2["limit"].as_u64();
            let mut now = cfg2["start"].as_i64().unwrap_or(0);
            WALL_ENABLED.store(true, Ordering::SeqCst);
            set_wall(now);
            let mut b = RollingFileAppender::builder().rotation(match rot.as_str() {
                "minutely" => Rotation::MINUTELY,
                "hourly" => Rotation::HOURLY,
                "daily" => Rotation::DAILY,
                _ => Rotation::NEVER,
            });
            if let Some(p) = cfg2["prefix"].as_str() {
                b = b.filename_prefix(p);
            }
            if let Some(s) = cfg2["suffix"].as_str() {
                b = b.filename_suffix(s);
            }
            if let Some(n) = limit {
                b = b.max_log_files(n as usize);
            }
            let (dfiles, ddirs) = decoys(&cfg2);
            for f in &dfiles {
                let _ = std::fs::write(dir2.join(f), b"not a log file\n");
            }
            for d in &ddirs {
                let _ = std::fs::create_dir_all(dir2.join(d));
            }
            *DECOY_FILES.lock().unwrap() = dfiles.clone();
            // log files of earlier runs (names the appender itself would have produced), oldest first
            for name in old_logs(&cfg2) {
                let _ = std::fs::write(dir2.join(&name), b"");
                fault("older_log_files_present");
                std::thread::sleep(std::time::Duration::from_millis(12));
            }
            if !dfiles.is_empty() {
                fault("foreign_entries_in_log_dir");
                // their creation time precedes every log file's
                std::thread::sleep(std::time::Duration::from_millis(12));
            }
            let appender = match b.build(&dir2) {
                Ok(a) => a,
                Err(e) => {
                    violation("init-failed", format!("building the appender failed: {e}"));
                    return;
                }
            };
            let mut boundary = next_boundary(&rot, now);
            let appender = Arc::new(Mutex::new(Some(appender)));
            let shared_app: Option<Arc<RollingFileAppender>> = if shared { Some(Arc::new(appender.lock().unwrap().take().unwrap())) } else { None };
            let mut counters = vec![0usize; nthreads];
            // persistent writer threads (shared interface): phase barrier through two counters
            let phase_no = Arc::new(std::sync::atomic::AtomicUsize::new(0));
            let done = Arc::new(std::sync::atomic::AtomicUsize::new(0));
            let work: Arc<Mutex<Vec<Vec<(usize, usize)>>>> = Arc::new(Mutex::new(vec![vec![]; nthreads])); // per thread: (k0, n) of the current phase
            let nphases = steps.len();
            let mut tids = vec![];
            if let Some(app) = &shared_app {
                for t in 0..nthreads {
                    let app = app.clone();
                    let phase_no = phase_no.clone();
                    let done = done.clone();
                    let work = work.clone();
                    tids.push(detsim::spawn(&format!("w{t}"), move || {
                        for ph in 1..=nphases {
                            detsim::block_until("phase", None, || phase_no.load(Ordering::SeqCst) >= ph);
                            let (k0, n) = work.lock().unwrap()[t].first().copied().unwrap_or((0, 0));
                            for k in k0..k0 + n {
                                detsim::op_boundary("op");
                                let mut w = app.make_writer();
                                let line = format!("B{t}.{k};\n");
                                if let Err(e) = w.write_all(line.as_bytes()) {
                                    violation("write-failed", format!("write of {line:?} failed: {e}"));
                                }
                                drop(w);
                                ev(format!("write t{t} k{k}"));
                            }
                            done.fetch_add(1, Ordering::SeqCst);
                            detsim::progress();
                        }
                    }));
                }
            }
            let mut phase_idx = 0usize;
            let mut removed_any = false;
            for s in &steps {
                let p = period_secs(&rot);
                let c = &s["clock"];
                match c["mode"].as_str().unwrap_or("small") {
                    "to_boundary" => {
                        if boundary != 0 && boundary > now {
                            now = boundary;
                        }
                    }
                    "before_boundary" => {
                        if boundary != 0 && boundary - 1 > now {
                            now = boundary - 1;
                        }
                    }
                    "after_boundary" => {
                        if boundary != 0 {
                            now = now.max(boundary + c["secs"].as_i64().unwrap_or(1));
                        }
                    }
                    "jump" => now += p.max(60) * c["n"].as_i64().unwrap_or(2) + 7,
                    "still" => fault("clock_stand_still"),
                    "back" => {
                        now -= c["secs"].as_i64().unwrap_or(1);
                        fault("clock_step_back");
                    }
                    _ => now += c["secs"].as_i64().unwrap_or(1),
                }
                set_wall(now);
                if limit.is_some() {
                    // the only real sleep in the system: file creation timestamps have tick granularity and
                    // pruning orders by them; it influences no choice the simulator makes
                    std::thread::sleep(std::time::Duration::from_millis(12));
                }
                // fault: somebody removes the whole log directory; injected only where the next write rotates, so that
                // the appender has to create the new period's file (and the directory) again
                let mut rmdir = false;
                if s["rmdir"].as_bool().unwrap_or(false) && boundary != 0 && now >= boundary {
                    if s["rmdir_deep"].as_bool().unwrap_or(false) {
                        let _ = std::fs::remove_dir_all(root2.join("logs"));
                        fault("log_directory_tree_removed");
                    } else {
                        let _ = std::fs::remove_dir_all(&dir2);
                    }
                    fault("log_directory_removed");
                    rmdir = true;
                    removed_any = true;
                }
                let before: Vec<String> = read_dir(&dir2).keys().cloned().collect();
                let per: Vec<usize> = s["writes"].as_array().cloned().unwrap_or_default().iter().map(|x| x.as_u64().unwrap_or(1) as usize).collect();
                let mut bufs = vec![];
                if shared {
                    {
                        let mut w = work.lock().unwrap();
                        for t in 0..nthreads {
                            let k0 = counters[t];
                            let n = per.get(t).copied().unwrap_or(1);
                            for k in k0..k0 + n {
                                bufs.push((t, k));
                            }
                            counters[t] += n;
                            w[t] = vec![(k0, n)];
                        }
                    }
                    phase_idx += 1;
                    phase_no.store(phase_idx, Ordering::SeqCst);
                    detsim::progress();
                    let target = phase_idx * nthreads;
                    detsim::block_until("phase-done", None, || done.load(Ordering::SeqCst) >= target);
                } else {
                    let mut g = appender.lock().unwrap();
                    let a = g.as_mut().unwrap();
                    let n = per.first().copied().unwrap_or(1);
                    for k in counters[0]..counters[0] + n {
                        bufs.push((0, k));
                        let line = format!("B0.{k};\n");
                        if let Err(e) = a.write_all(line.as_bytes()) {
                            violation("write-failed", format!("write of {line:?} failed: {e}"));
                        }
                        ev(format!("write t0 k{k}"));
                    }
                    counters[0] += n;
                    let _ = a.flush();
                }
                let after: Vec<String> = read_dir(&dir2).keys().cloned().collect();
                ev(format!("phase clock={now} files={:?}", after));
                result2.lock().unwrap().push(Phase { clock: now, bufs, files_before: before, files_after: after, rmdir });
                if boundary != 0 && now >= boundary {
                    boundary = next_boundary(&rot, now);
                }
            }
            for id in tids {
                detsim::join(id);
            }
            drop(shared_app);
            *ff2.lock().unwrap() = read_dir(&dir2);
            for f in dfiles.iter().filter(|_| !removed_any) {
                if std::fs::read(dir2.join(f)).ok().as_deref() != Some(&b"not a log file\n"[..]) {
                    violation("foreign-file-touched", format!("{f:?} was in the log directory before the appender was built and does not match its prefix/suffix, but it was removed or changed"));
                }
            }
            for d in ddirs.iter().filter(|_| !removed_any) {
                if !dir2.join(d).is_dir() {
                    violation("foreign-file-touched", format!("the directory {d:?} inside the log directory was removed"));
                }
            }
        };
        let cfg3 = cfg.clone();
        let dir3 = root.clone();
        let finish = move || {
            let phases = result.lock().unwrap().clone();
            let files = final_files.lock().unwrap().clone();
            oracle(&cfg3, &phases, &files);
            let _ = std::fs::remove_dir_all(&dir3);
        };
        simulate(&plan.to_string(), &sched, None, body, finish)
    }
}

/// A7 rolling model over the phase history.
fn oracle(cfg: &Value, phases: &[Phase], files: &BTreeMap<String, Vec<u8>>) {
    if has_violation() {
        return;
    }
    let rot = cfg["rot"].as_str().unwrap_or("never");
    let prefix = cfg["prefix"].as_str().map(|s| s.to_string());
    let suffix = cfg["suffix"].as_str().map(|s| s.to_string());
    let limit = cfg["limit"].as_u64().map(|n| n as usize);
    let shared = cfg["shared"].as_bool().unwrap_or(false);
    let start = cfg["start"].as_i64().unwrap_or(0);
    let mut cur = file_name(rot, &prefix, &suffix, start);
    let mut boundary = next_boundary(rot, start);
    // model of existing files in creation order
    let mut existing: Vec<String> = old_logs(cfg);
    existing.push(cur.clone());
    let mut pruned: Vec<String> = vec![];
    // where each buffer may be: buffer -> allowed files
    let mut allowed: Vec<((usize, usize), Vec<String>)> = vec![];
    let mut rotations = 0;
    let mut multi_writer_rotation = false;
    let mut still_or_back_after_rotation = false;
    let mut prev_clock = start;
    for ph in phases {
        let rotates = boundary != 0 && ph.clock >= boundary;
        let prev = cur.clone();
        if ph.clock <= prev_clock && rotations > 0 {
            still_or_back_after_rotation = true;
        }
        prev_clock = ph.clock;
        if ph.rmdir {
            for f in existing.drain(..) {
                pruned.push(f);
            }
        }
        if rotates {
            rotations += 1;
            cur = file_name(rot, &prefix, &suffix, ph.clock);
            boundary = next_boundary(rot, ph.clock);
            if let Some(max) = limit {
                if existing.len() >= max {
                    let n = existing.len() - (max - 1);
                    for f in existing.drain(..n) {
                        pruned.push(f);
                    }
                }
            }
            if !existing.contains(&cur) {
                existing.push(cur.clone());
            }
            pruned.retain(|f| *f != cur);
            let writers: std::collections::HashSet<usize> = ph.bufs.iter().map(|b| b.0).collect();
            if writers.len() >= 2 {
                multi_writer_rotation = true;
            }
        }
        // files created / removed during this phase
        let created: Vec<&String> = ph.files_after.iter().filter(|f| !ph.files_before.contains(f)).collect();
        if rotates {
            if created.len() > 1 || (created.len() == 1 && *created[0] != cur) {
                violation("extra-rotation", format!("clock {} crossed one boundary: expected the single new file {:?}, the phase created {:?}", ph.clock, cur, created));
                return;
            }
            if created.is_empty() && !ph.files_before.contains(&cur) {
                violation("missing-rotation", format!("clock {} reached the boundary but no file {:?} was created (files: {:?})", ph.clock, cur, ph.files_after));
                return;
            }
        } else if !created.is_empty() {
            violation("rotated-on-still-or-back", format!("clock {} did not reach the next boundary (stand-still, step back or inside the period) but the phase created {:?}", ph.clock, created));
            return;
        }
        if let Some(max) = limit {
            let matching: Vec<&String> = ph.files_after.iter().filter(|f| prefix.as_ref().map_or(true, |p| f.starts_with(p.as_str())) && suffix.as_ref().map_or(true, |s| f.ends_with(s.as_str()))).collect();
            if rotates && matching.len() > max {
                violation("too-many-files", format!("file limit {max}: after the rotation at clock {} the directory holds {:?}", ph.clock, matching));
                return;
            }
            if rotates {
                let mut want = existing.clone();
                want.sort();
                let mut got: Vec<String> = ph.files_after.clone();
                got.sort();
                if (prefix.is_some() || suffix.is_some()) && got != want {
                    violation("pruned-not-oldest", format!("file limit {max}: expected the files {:?} to remain (oldest removed first), found {:?}", want, got));
                    return;
                }
            }
        }
        for b in &ph.bufs {
            let mut a = vec![cur.clone()];
            if rotates && shared {
                // a write that overlapped another thread's rotation may still land in the file being replaced
                a.push(prev.clone());
            }
            allowed.push((*b, a));
        }
    }
    // every buffer exactly once, whole, in an allowed file that still exists (or legitimately pruned)
    for ((t, k), allowed_files) in &allowed {
        let needle = format!("B{t}.{k};\n");
        let mut found: Vec<&String> = vec![];
        let mut count = 0;
        for (name, content) in files {
            let text = String::from_utf8_lossy(content);
            let c = text.matches(&needle).count();
            if c > 0 {
                found.push(name);
                count += c;
            }
        }
        if count > 1 {
            violation("dup-write", format!("buffer {:?} occurs {} times in {:?}", needle, count, found));
            return;
        }
        if count == 0 {
            if allowed_files.iter().any(|f| pruned.contains(f)) {
                continue; // it sat in a file the limit legitimately removed
            }
            // torn?
            let stem = format!("B{t}.{k}");
            let torn = files.values().any(|c| String::from_utf8_lossy(c).contains(&stem));
            violation(if torn { "torn-write" } else { "lost-write" }, format!("buffer {:?} is in none of the files (expected in {:?}); directory: {:?}", needle, allowed_files, files.keys().collect::<Vec<_>>()));
            return;
        }
        if !allowed_files.contains(found[0]) {
            violation("wrong-file", format!("buffer {:?} landed in {:?}, expected {:?}", needle, found[0], allowed_files));
            return;
        }
    }
    // files contain nothing but whole buffers, each thread's buffers in order within a file
    for (name, content) in files {
        let text = String::from_utf8_lossy(content).to_string();
        let mut last: std::collections::HashMap<usize, usize> = Default::default();
        for line in text.split_inclusive('\n') {
            let ok = line.starts_with('B') && line.ends_with(";\n");
            let parsed = line.trim_end_matches(";\n").trim_start_matches('B').split_once('.').and_then(|(a, b)| Some((a.parse::<usize>().ok()?, b.parse::<usize>().ok()?)));
            match (ok, parsed) {
                (true, Some((t, k))) => {
                    if let Some(p) = last.get(&t) {
                        if *p > k {
                            violation("reordered", format!("file {name:?}: thread {t}'s buffers out of order ({p} before {k})"));
                            return;
                        }
                    }
                    last.insert(t, k);
                }
                _ => {
                    violation("torn-write", format!("file {name:?} contains something that is not one whole buffer: {:?}", line));
                    return;
                }
            }
        }
    }
    if rotations > 0 && ((shared && multi_writer_rotation) || (!shared && still_or_back_after_rotation)) {
        nontrivial();
    }
}
