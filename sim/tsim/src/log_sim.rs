//! core-sim, part 2: C18 — log and tracing interoperate without losing, inventing or mislabelling records.
//! Built with the `logfeat` feature (tracing's `log` feature on). One process per run because
//! `log::set_logger` and tracing's "a dispatcher has ever been set" flag are one-shot.
use crate::fw::*;
use crate::sites;
use detsim::Rng;
use serde_json::{json, Value};
use std::sync::atomic::{AtomicU64, AtomicUsize, Ordering};
use std::sync::Mutex;
use tracing_core::dispatch::{self, Dispatch};
use tracing_core::span::{Attributes, Id, Record};
use tracing_core::{Collect, Event, Interest, LevelFilter, Metadata};
use tracing_log::NormalizeEvent;

pub struct LogEngine;

// ---- recording log::Log ------------------------------------------------------------------------
#[derive(Clone, Debug)]
struct LRecord {
    stamp: u64,
    level: usize, // 1 error .. 5 trace
    target: String,
    text: String,
}
static LOGGED: Mutex<Vec<LRecord>> = Mutex::new(Vec::new());
struct RecLogger;
impl log::Log for RecLogger {
    fn enabled(&self, _m: &log::Metadata<'_>) -> bool {
        true
    }
    fn log(&self, r: &log::Record<'_>) {
        let rec = LRecord { stamp: detsim::stamp(), level: r.level() as usize, target: r.target().to_string(), text: format!("{}", r.args()) };
        ev(format!("logged {} {} {}", rec.level, rec.target, rec.text));
        LOGGED.lock().unwrap().push(rec);
    }
    fn flush(&self) {}
}
static RECLOGGER: RecLogger = RecLogger;

// ---- recording collector for bridged log records ---------------------------------------------------
#[derive(Clone, Debug)]
struct Bridged {
    stamp: u64,
    thread: usize,
    k: usize,
    level: u8,
    message: String,
    raw_target: String,
    norm: Option<(String, u8, Option<String>, Option<u32>, Option<String>)>,
}
static BRIDGED: Mutex<Vec<Bridged>> = Mutex::new(Vec::new());

struct LogCollect {
    k: usize,
    thr: u8,
    prefixes: Vec<String>,
    next: AtomicU64,
    always: bool,
}
impl LogCollect {
    fn accept(&self, level: u8, target: &str) -> bool {
        level <= self.thr && (self.prefixes.is_empty() || self.prefixes.iter().any(|p| target.starts_with(p.as_str())))
    }
}
struct MsgVisitor {
    message: String,
}
impl tracing_core::field::Visit for MsgVisitor {
    fn record_debug(&mut self, field: &tracing_core::field::Field, value: &dyn std::fmt::Debug) {
        if field.name() == "message" {
            self.message = format!("{:?}", value);
        }
    }
}
impl Collect for LogCollect {
    fn register_callsite(&self, m: &'static Metadata<'static>) -> Interest {
        if self.always {
            // a collector with static answers: accepted callsites are cached as `always`
            return if self.accept(sites::level_num(m.level()), m.target()) { Interest::always() } else { Interest::never() };
        }
        Interest::sometimes()
    }
    fn enabled(&self, m: &Metadata<'_>) -> bool {
        self.accept(sites::level_num(m.level()), m.target())
    }
    fn max_level_hint(&self) -> Option<LevelFilter> {
        Some(crate::stack::lf(self.thr as u64))
    }
    fn new_span(&self, _a: &Attributes<'_>) -> Id {
        Id::from_u64(self.next.fetch_add(1, Ordering::SeqCst))
    }
    fn record(&self, _s: &Id, _v: &Record<'_>) {}
    fn record_follows_from(&self, _s: &Id, _f: &Id) {}
    fn event(&self, e: &Event<'_>) {
        let mut v = MsgVisitor { message: String::new() };
        e.record(&mut v);
        let norm = e.normalized_metadata().map(|m| (m.target().to_string(), sites::level_num(m.level()), m.file().map(|s| s.to_string()), m.line(), m.module_path().map(|s| s.to_string())));
        let b = Bridged { stamp: detsim::stamp(), thread: detsim::current(), k: self.k, level: sites::level_num(e.metadata().level()), message: v.message, raw_target: e.metadata().target().to_string(), norm };
        ev(format!("bridged c{} t{} {:?}", b.k, b.thread, b.norm));
        BRIDGED.lock().unwrap().push(b);
    }
    fn enter(&self, _s: &Id) {}
    fn exit(&self, _s: &Id) {}
    fn current_span(&self) -> tracing_core::span::Current {
        tracing_core::span::Current::none()
    }
}

#[derive(Clone, Debug, Default)]
struct H {
    gi: usize,
    t: usize,
    op: String,
    inv: u64,
    ret: u64,
    applied: bool,
    ok: bool,
    k: i64,
    uid: u64,
    site: usize,
    v: Value,
}
static HIST: Mutex<Vec<H>> = Mutex::new(Vec::new());

/// Thread-exit effect: a thread-local created before its thread touches tracing or log, whose destructor logs one
/// record through the bridge while the thread exits (the thread has no scope left; the global default applies).
struct LateLog(usize);
impl Drop for LateLog {
    fn drop(&mut self) {
        fault("log_record_in_tls_destructor");
        let inv = detsim::stamp();
        if log::Level::Info <= log::max_level() {
            log::logger().log(&log::Record::builder().args(format_args!("late")).level(log::Level::Info).target("app").build());
        }
        let ret = detsim::stamp();
        HIST.lock().unwrap().push(H { gi: usize::MAX - 1, t: self.0, op: "log".into(), applied: true, inv, ret, v: json!({"level": 3, "target": "app", "msg": "late"}), ..Default::default() });
    }
}
thread_local! {
    static LATE_LOG: std::cell::RefCell<Option<LateLog>> = std::cell::RefCell::new(None);
}
static TURN: AtomicUsize = AtomicUsize::new(0);
static COLLECTORS: Mutex<Vec<Option<(Dispatch, u8, Vec<String>)>>> = Mutex::new(Vec::new());
static SPANS: Mutex<Vec<Option<(tracing::Span, u64, usize, bool)>>> = Mutex::new(Vec::new()); // (span, uid, site, bare)

fn log_level(n: u64) -> log::Level {
    match n {
        1 => log::Level::Error,
        2 => log::Level::Warn,
        3 => log::Level::Info,
        4 => log::Level::Debug,
        _ => log::Level::Trace,
    }
}
fn log_filter(n: u64) -> log::LevelFilter {
    match n {
        0 => log::LevelFilter::Off,
        1 => log::LevelFilter::Error,
        2 => log::LevelFilter::Warn,
        3 => log::LevelFilter::Info,
        4 => log::LevelFilter::Debug,
        _ => log::LevelFilter::Trace,
    }
}

fn exec_step(gi: usize, t: usize, s: &Value, guards: &mut Vec<dispatch::DefaultGuard>) {
    let op = s["op"].as_str().unwrap_or("").to_string();
    let k = s["k"].as_i64().unwrap_or(-1);
    let uid = (gi as u64 + 1) * 1000;
    let slot = s["slot"].as_u64().unwrap_or(0) as usize % 4;
    let mut h = H { gi, t, op: op.clone(), applied: true, k, uid, v: s.clone(), ..Default::default() };
    h.inv = detsim::stamp();
    match op.as_str() {
        "install_tracer" => {
            let mut b = tracing_log::LogTracer::builder().with_max_level(log_filter(s["max"].as_u64().unwrap_or(5)));
            // the ignore list is built through any mix of `ignore_crate` and `ignore_all` calls, in plan order
            let ign: Vec<String> = s["ignore"].as_array().cloned().unwrap_or_default().iter().map(|p| p.as_str().unwrap_or("").to_string()).collect();
            let how = s["ignore_how"].as_u64().unwrap_or(0);
            match how {
                // one ignore_all
                1 => b = b.ignore_all(ign.clone()),
                // the first by ignore_crate, the rest by one ignore_all
                2 if !ign.is_empty() => b = b.ignore_crate(ign[0].clone()).ignore_all(ign[1..].to_vec()),
                // two ignore_all calls
                3 if !ign.is_empty() => b = b.ignore_all(ign[..1].to_vec()).ignore_all(ign[1..].to_vec()),
                _ => {
                    for p in &ign {
                        b = b.ignore_crate(p.clone());
                    }
                }
            }
            h.ok = b.init().is_ok();
        }
        "install_logger" => {
            h.ok = log::set_logger(&RECLOGGER).is_ok();
            if h.ok {
                log::set_max_level(log_filter(s["max"].as_u64().unwrap_or(5)));
            }
        }
        "new" => {
            let thr = s["thr"].as_u64().unwrap_or(5) as u8;
            let prefixes: Vec<String> = s["prefixes"].as_array().cloned().unwrap_or_default().iter().filter_map(|x| x.as_str().map(|s| s.to_string())).collect();
            let free = COLLECTORS.lock().unwrap().get(k as usize).map_or(false, |c| c.is_none());
            if free {
                let d = Dispatch::new(LogCollect { k: k as usize, thr, prefixes: prefixes.clone(), next: AtomicU64::new(1), always: s["always"].as_bool().unwrap_or(false) });
                COLLECTORS.lock().unwrap()[k as usize] = Some((d, thr, prefixes));
            } else {
                h.applied = false;
            }
        }
        "open" => {
            let d = COLLECTORS.lock().unwrap().get(k as usize).cloned().flatten();
            match d {
                Some((d, _, _)) => guards.push(dispatch::set_default(&d)),
                None => h.applied = false,
            }
        }
        "close" => match guards.pop() {
            Some(g) => drop(g),
            None => h.applied = false,
        },
        "global" => {
            let d = COLLECTORS.lock().unwrap().get(k as usize).cloned().flatten();
            match d {
                Some((d, _, _)) => h.ok = dispatch::set_global_default(d).is_ok(),
                None => h.applied = false,
            }
        }
        "log" => {
            // what the `log` macros do: the static max-level gate, then the logger
            let level = log_level(s["level"].as_u64().unwrap_or(3));
            if level <= log::max_level() {
                let target = s["target"].as_str().unwrap_or("app").to_string();
                let msg = s["msg"].as_str().unwrap_or("").to_string();
                let file = s["file"].as_str().map(|x| x.to_string());
                let module = s["module"].as_str().map(|x| x.to_string());
                let line = s["line"].as_u64().map(|x| x as u32);
                log::logger().log(&log::Record::builder().args(format_args!("{}", msg)).level(level).target(&target).file(file.as_deref()).line(line).module_path(module.as_deref()).build());
            }
        }
        "event" => {
            h.site = s["site"].as_u64().unwrap_or(0) as usize % sites::N;
            if s["with_message"].as_bool().unwrap_or(false) {
                tracing::info!(target: "app", val = uid, "hello {}", 5);
                h.site = 8; // INFO x app
            } else {
                sites::emit_event(h.site, uid);
            }
        }
        "span_new" => {
            let free = SPANS.lock().unwrap()[slot].is_none();
            if free {
                h.site = s["site"].as_u64().unwrap_or(0) as usize % sites::N;
                let bare = s["bare"].as_bool().unwrap_or(false);
                let sp = if bare { tracing::span!(target: "app", tracing::Level::INFO, "bare") } else { sites::make_span(h.site, uid) };
                if bare {
                    h.site = 8;
                }
                SPANS.lock().unwrap()[slot] = Some((sp, uid, h.site, bare));
            } else {
                h.applied = false;
            }
        }
        "enter_exit" => {
            let x = SPANS.lock().unwrap()[slot].take();
            match x {
                Some((sp, u, site, bare)) => {
                    h.uid = u;
                    h.site = site;
                    h.ok = bare;
                    // three ways to enter and leave; each is one enter and one exit step
                    let sp = match s["how"].as_u64().unwrap_or(0) {
                        1 => {
                            {
                                let _g = sp.enter();
                            }
                            sp
                        }
                        2 => sp.entered().exit(),
                        3 => {
                            // fault: the span is left by a guard dropped while a panic (caught) unwinds
                            fault("exit_by_unwinding");
                            let _ = std::panic::catch_unwind(std::panic::AssertUnwindSafe(|| {
                                let _g = sp.enter();
                                panic!("injected panic while a span is entered");
                            }));
                            sp
                        }
                        _ => {
                            sp.in_scope(|| {});
                            sp
                        }
                    };
                    SPANS.lock().unwrap()[slot] = Some((sp, u, site, bare));
                }
                None => h.applied = false,
            }
        }
        "drop" => {
            let x = SPANS.lock().unwrap()[slot].take();
            match x {
                Some((sp, u, site, bare)) => {
                    h.uid = u;
                    h.site = site;
                    h.ok = bare;
                    if s["unwind"].as_bool().unwrap_or(false) {
                        // fault: the handle is dropped by a panic (caught) unwinding through its owner's frame
                        fault("handle_dropped_by_unwinding");
                        let _ = std::panic::catch_unwind(std::panic::AssertUnwindSafe(move || {
                            let _owned = sp;
                            panic!("injected panic while a span handle is alive");
                        }));
                    } else {
                        drop(sp);
                    }
                }
                None => h.applied = false,
            }
        }
        _ => h.applied = false,
    }
    h.ret = detsim::stamp();
    ev(format!("op {gi} t{t} {op} applied={} ok={}", h.applied, h.ok));
    HIST.lock().unwrap().push(h);
}

const TARGETS: [&str; 11] = ["app", "app::db", "app::zeta", "app_neighbour", "hyper::proto", "hyper::proto::h2", "hyper::zz", "hyper", "other crate", "tokio::net", ""];

impl Engine for LogEngine {
    fn name(&self) -> &'static str {
        "log-sim"
    }
    fn props(&self) -> &'static [&'static str] {
        &["C18"]
    }
    fn rule(&self, _p: &str) -> String {
        "direction log->tracing: LogTracer (ignore list, max level) installed at a seeded position, collectors with level x target-prefix filters scoped or global on 1-2 threads, log records of 5 levels with arbitrary target/message and present/absent file/line/module; direction tracing->log (tracing built with its log feature): a recording log::Log installed with a seeded max level, events (with and without message) and span lifecycle steps (with and without fields) before and after the first collector installation on any thread; non-trivial = (log->tracing) at least one record bridged and one suppressed by the collector's own filter, or (tracing->log) at least one record emitted before and one operation silent after the first installation; distinct = distinct plan digest".into()
    }
    fn components(&self) -> Value {
        json!({"real": ["tracing_log::{LogTracer, dispatch_record, NormalizeEvent, AsLog/AsTrace}", "tracing macros and Span with the `log` feature (if_log_enabled!, Span::log)", "log crate facade"], "stub": ["collectors (recording)", "log::Log implementation (recording)"]})
    }
    fn generate(&self, g: &GenCtx) -> Value {
        let mut rng = Rng::new(g.seed);
        // the tracing->log direction exists only when tracing is built with its `log` feature
        let dir = if rng.chance(1, 2) || !cfg!(feature = "logfeat") { "log2trace" } else { "trace2log" };
        let nthreads = rng.range(1, 2);
        let n = rng.range(5, if g.tier == "thorough" { 30 } else { 20 });
        let mut steps = vec![];
        if dir == "log2trace" {
            let install_at = rng.below(n / 2 + 1);
            let mut created = 0u64;
            for i in 0..n {
                let t = rng.below(nthreads);
                if i == install_at {
                    let ignore: Vec<&str> = (0..rng.below(4)).map(|_| *rng.pick(&["hyper", "hyper::proto", "tokio", "app", "app::db", "other"])).collect();
                    steps.push(json!({"t": t, "op": "install_tracer", "max": rng.range(2, 5), "ignore": ignore, "ignore_how": rng.below(4)}));
                }
                if created == 0 || (created < 3 && rng.chance(1, 6)) {
                    let prefixes: Vec<&str> = (0..rng.below(3)).map(|_| *rng.pick(&["app", "hyper", "app::db", "tokio", "other"])).collect();
                    steps.push(json!({"t": t, "op": "new", "k": created, "thr": rng.range(1, 5), "prefixes": prefixes}));
                    created += 1;
                    continue;
                }
                let k = rng.below(created);
                steps.push(match rng.below(10) {
                    0 | 1 => json!({"t": t, "op": "open", "k": k}),
                    2 => json!({"t": t, "op": "close"}),
                    3 => json!({"t": t, "op": "global", "k": k}),
                    _ => {
                        // file, line and module are present or absent independently of each other
                        json!({"t": t, "op": "log", "level": rng.range(1, 5), "target": *rng.pick(&TARGETS), "msg": *rng.pick(&["plain message", "with \"quotes\" and {braces}", "", "multi word message 42", "unicode \u{e9}\u{1F600}"]),
                               "file": if rng.chance(1, 2) { json!(*rng.pick(&["src/main.rs", "weird file.rs"])) } else { Value::Null },
                               "line": if rng.chance(1, 2) { json!(rng.range(1, 5000)) } else { Value::Null },
                               "module": if rng.chance(1, 2) { json!(*rng.pick(&["app::module", "hyper::proto::h1"])) } else { Value::Null }})
                    }
                });
            }
        } else {
            let install_at = rng.below(3);
            let first_collector_at = rng.range(2, n + 2);
            let failed_tracer_at = if rng.chance(1, 3) { rng.range(1, n) } else { u64::MAX };
            // a collector that is constructed (and so takes part in callsite interest) but never installed: the macros
            // then take their enabled branch towards the no-op collector, and must log exactly the same
            let held_at = if rng.chance(1, 3) { rng.below(first_collector_at) } else { u64::MAX };
            for i in 0..n {
                let t = rng.below(nthreads);
                if i == held_at {
                    steps.push(json!({"t": t, "op": "new", "k": 1, "thr": 5, "prefixes": [], "always": rng.chance(2, 3)}));
                }
                if i == install_at {
                    steps.push(json!({"t": t, "op": "install_logger", "max": rng.range(1, 5)}));
                }
                // a later attempt to install the log->tracing bridge fails (a logger exists) and must leave
                // the log crate's state alone
                if i == failed_tracer_at && i > install_at {
                    steps.push(json!({"t": t, "op": "install_tracer", "max": rng.range(0, 5), "ignore": []}));
                }
                if i == first_collector_at {
                    steps.push(json!({"t": t, "op": "new", "k": 0, "thr": 5, "prefixes": []}));
                    steps.push(json!({"t": t, "op": "open", "k": 0}));
                    if rng.chance(1, 2) {
                        steps.push(json!({"t": t, "op": "close"}));
                    }
                }
                let slot = rng.below(4);
                steps.push(match rng.below(10) {
                    0..=3 => json!({"t": t, "op": "event", "site": rng.below(20), "with_message": rng.chance(1, 4)}),
                    4 | 5 => json!({"t": t, "op": "span_new", "slot": slot, "site": rng.below(20), "bare": rng.chance(1, 3)}),
                    6 | 7 => json!({"t": t, "op": "enter_exit", "slot": slot, "how": rng.below(4)}),
                    _ => json!({"t": t, "op": "drop", "slot": slot, "unwind": rng.chance(1, 4)}),
                });
            }
        }
        let sched = Sched::op_order(rng.next_u64());
        json!({"engine": "log", "prop": g.prop, "mode": g.mode, "cfg": {"dir": dir, "threads": nthreads, "late_log": rng.chance(1, 3)}, "steps": steps, "sched": serde_json::to_value(&sched).unwrap()})
    }

    fn execute(&self, plan: &Value) -> RunResult {
        std::panic::set_hook(Box::new(|_| {}));
        let sched = plan_sched(plan);
        let dir = plan["cfg"]["dir"].as_str().unwrap_or("log2trace").to_string();
        let nthreads = plan["cfg"]["threads"].as_u64().unwrap_or(1).max(1) as usize;
        let steps: Vec<Value> = plan["steps"].as_array().cloned().unwrap_or_default();
        let late_log = plan["cfg"]["late_log"].as_bool().unwrap_or(false) && dir == "log2trace";
        *COLLECTORS.lock().unwrap() = vec![None, None, None, None];
        *SPANS.lock().unwrap() = (0..4).map(|_| None).collect();
        let body = move || {
            // level maps: a bijection that preserves order (five values, checked exhaustively)
            {
                use tracing_log::{AsLog, AsTrace};
                let ls = [log::Level::Error, log::Level::Warn, log::Level::Info, log::Level::Debug, log::Level::Trace];
                let ts = [tracing_core::Level::ERROR, tracing_core::Level::WARN, tracing_core::Level::INFO, tracing_core::Level::DEBUG, tracing_core::Level::TRACE];
                for i in 0..5 {
                    if ls[i].as_trace() != ts[i] || ts[i].as_log() != ls[i] {
                        violation("level-map", format!("level conversion is not the order-preserving bijection at index {i}"));
                    }
                }
            }
            let indexed: Vec<(usize, usize, Value)> = steps.iter().enumerate().map(|(gi, s)| (gi, (s["t"].as_u64().unwrap_or(0) as usize) % nthreads, s.clone())).collect();
            TURN.store(0, Ordering::SeqCst);
            let run = move |t: usize, mine: Vec<(usize, Value)>| {
                if t > 0 && late_log {
                    LATE_LOG.with(|s| *s.borrow_mut() = Some(LateLog(t)));
                }
                let mut guards = vec![];
                for (gi, s) in mine {
                    detsim::block_until("turn", None, || TURN.load(Ordering::SeqCst) == gi);
                    exec_step(gi, t, &s, &mut guards);
                    TURN.store(gi + 1, Ordering::SeqCst);
                    detsim::progress();
                }
                while let Some(g) = guards.pop() {
                    let inv = detsim::stamp();
                    drop(g);
                    HIST.lock().unwrap().push(H { gi: usize::MAX, t, op: "close".into(), applied: true, inv, ret: detsim::stamp(), ..Default::default() });
                }
            };
            let mut tids = vec![];
            for t in 1..nthreads {
                let mine: Vec<(usize, Value)> = indexed.iter().filter(|x| x.1 == t).map(|x| (x.0, x.2.clone())).collect();
                tids.push(detsim::spawn(&format!("t{t}"), move || run(t, mine)));
            }
            let mine: Vec<(usize, Value)> = indexed.iter().filter(|x| x.1 == 0).map(|x| (x.0, x.2.clone())).collect();
            run(0, mine);
            for id in tids {
                detsim::join(id);
            }
            let rest: Vec<_> = SPANS.lock().unwrap().drain(..).collect();
            drop(rest);
        };
        let finish = move || {
            let hist = std::mem::take(&mut *HIST.lock().unwrap());
            if dir == "log2trace" {
                oracle_log2trace(&hist);
            } else {
                oracle_trace2log(&hist);
            }
        };
        simulate(&plan.to_string(), &sched, None, body, finish)
    }
}

fn oracle_log2trace(hist: &[H]) {
    if has_violation() {
        return;
    }
    let mut hist: Vec<H> = hist.to_vec();
    hist.sort_by_key(|h| h.inv);
    let bridged = BRIDGED.lock().unwrap().clone();
    let nthreads = hist.iter().map(|h| h.t).max().unwrap_or(0) + 1;
    let mut scopes: Vec<Vec<i64>> = vec![vec![]; nthreads];
    let mut global: i64 = -1;
    let mut tracer: Option<(u64, Vec<String>)> = None;
    let mut filters: Vec<Option<(u8, Vec<String>)>> = vec![None; 4];
    let (mut delivered, mut suppressed_by_filter) = (0, 0);
    for h in hist.iter().filter(|h| h.applied) {
        match h.op.as_str() {
            "install_tracer" if h.ok => tracer = Some((h.v["max"].as_u64().unwrap_or(5), h.v["ignore"].as_array().cloned().unwrap_or_default().iter().filter_map(|x| x.as_str().map(|s| s.to_string())).collect())),
            "new" => filters[h.k as usize] = Some((h.v["thr"].as_u64().unwrap_or(5) as u8, h.v["prefixes"].as_array().cloned().unwrap_or_default().iter().filter_map(|x| x.as_str().map(|s| s.to_string())).collect())),
            "open" => scopes[h.t].push(h.k),
            "close" => {
                scopes[h.t].pop();
            }
            "global" if h.ok => global = h.k,
            "log" => {
                let level = h.v["level"].as_u64().unwrap_or(3);
                let target = h.v["target"].as_str().unwrap_or("app");
                let msg = h.v["msg"].as_str().unwrap_or("");
                let cur = scopes[h.t].last().copied().unwrap_or(global);
                let bridge_ok = tracer.as_ref().map_or(false, |(max, ign)| level <= *max && !ign.iter().any(|p| target.starts_with(p.as_str())));
                let accept = cur >= 0 && filters[cur as usize].as_ref().map_or(false, |(thr, pre)| level as u8 <= *thr && (pre.is_empty() || pre.iter().any(|p| target.starts_with(p.as_str()))));
                let want = bridge_ok && accept;
                let got: Vec<&Bridged> = bridged.iter().filter(|b| b.stamp > h.inv && b.stamp < h.ret).collect();
                if want && got.len() != 1 {
                    violation("log-record-lost", format!("log record (level {level}, target {target:?}) on t{}: the current collector {cur} accepts it but {} events were produced", h.t, got.len()));
                    return;
                }
                if !want && !got.is_empty() {
                    let why = if !bridge_ok { "the bridge must not forward it (not installed / max level / ignored target)" } else { "the current collector's own filter rejects the record's level/target" };
                    violation("log-record-invented", format!("log record (level {level}, target {target:?}) on t{}: {why}, but collector {} received it", h.t, got[0].k));
                    return;
                }
                if want {
                    delivered += 1;
                    let b = got[0];
                    if b.k as i64 != cur || b.thread != h.t {
                        violation("wrong-receiver", format!("bridged record went to collector {} on thread {}, expected collector {cur} on thread {}", b.k, b.thread, h.t));
                        return;
                    }
                    let want_norm = (target.to_string(), level as u8, h.v["file"].as_str().map(|s| s.to_string()), h.v["line"].as_u64().map(|l| l as u32), h.v["module"].as_str().map(|s| s.to_string()));
                    if b.message != msg || b.level != level as u8 {
                        violation("log-record-mislabelled", format!("bridged event carries message {:?} level {} for a record with message {:?} level {}", b.message, b.level, msg, level));
                        return;
                    }
                    match &b.norm {
                        Some(n) if *n == want_norm => {}
                        other => {
                            violation("log-record-mislabelled", format!("normalized metadata {:?} differs from the record's {:?}", other, want_norm));
                            return;
                        }
                    }
                } else if bridge_ok && cur >= 0 {
                    suppressed_by_filter += 1;
                }
            }
            _ => {}
        }
    }
    if delivered > 0 && suppressed_by_filter > 0 {
        nontrivial();
    }
}

fn oracle_trace2log(hist: &[H]) {
    if has_violation() {
        return;
    }
    let mut hist: Vec<H> = hist.to_vec();
    hist.sort_by_key(|h| h.inv);
    let logged = LOGGED.lock().unwrap().clone();
    let mut logger_max: Option<u64> = None;
    let mut dispatcher_set = false;
    let (mut before, mut after) = (0, 0);
    let names = ["", "ERROR", "WARN", "INFO", "DEBUG", "TRACE"];
    let _ = names;
    for h in hist.iter().filter(|h| h.applied) {
        let got: Vec<&LRecord> = logged.iter().filter(|r| r.stamp > h.inv && r.stamp < h.ret).collect();
        // expected records for this op: (level, target, needles)
        let mut want: Vec<(usize, String, Vec<String>)> = vec![];
        let (lvl, tg) = sites::SITES[h.site];
        let site_target = sites::TARGETS[tg as usize].to_string();
        let emitting = logger_max.is_some() && !dispatcher_set;
        let gate = |level: u8| logger_max.map_or(false, |m| (level as u64) <= m);
        match h.op.as_str() {
            "install_logger" if h.ok => logger_max = Some(h.v["max"].as_u64().unwrap_or(5)),
            "open" | "global" => dispatcher_set = true,
            "event" => {
                if emitting && gate(lvl) {
                    let mut needles = vec![format!("val={}", h.uid)];
                    if h.v["with_message"].as_bool().unwrap_or(false) {
                        needles.push("hello 5".into());
                    } else {
                        needles.push(format!("site={}", h.site));
                    }
                    want.push((lvl as usize, site_target.clone(), needles));
                }
            }
            "span_new" => {
                if emitting && gate(lvl) {
                    let bare = h.v["bare"].as_bool().unwrap_or(false);
                    if bare {
                        want.push((lvl as usize, "tracing::span".into(), vec!["bare".into()]));
                    } else {
                        want.push((lvl as usize, site_target.clone(), vec!["pool_span".into(), format!("val={}", h.uid)]));
                    }
                }
            }
            "enter_exit" => {
                if emitting && gate(lvl) {
                    let name = if h.ok { "bare" } else { "pool_span" };
                    want.push((5, "tracing::span::active".into(), vec![format!("-> {name}")]));
                    want.push((5, "tracing::span::active".into(), vec![format!("<- {name}")]));
                }
            }
            "drop" => {
                if emitting && gate(lvl) {
                    let name = if h.ok { "bare" } else { "pool_span" };
                    want.push((5, "tracing::span".into(), vec![format!("-- {name}")]));
                }
            }
            _ => {}
        }
        if matches!(h.op.as_str(), "event" | "span_new" | "enter_exit" | "drop") {
            if dispatcher_set && logger_max.is_some() {
                after += 1;
            }
            if got.len() != want.len() {
                let class = if got.len() < want.len() { "log-emission-lost" } else if dispatcher_set { "log-emitted-after-install" } else { "log-emission-invented" };
                violation(class, format!("op {} ({} at site {}): expected {} log record(s) {:?}, the logger received {:?} (logger installed: {}, a collector has been installed: {})", h.gi, h.op, h.site, want.len(), want, got.iter().map(|r| (&r.target, r.level, &r.text)).collect::<Vec<_>>(), logger_max.is_some(), dispatcher_set));
                return;
            }
            for (w, g) in want.iter().zip(got.iter()) {
                before += 1;
                if g.level != w.0 || g.target != w.1 || !w.2.iter().all(|n| g.text.contains(n.as_str())) {
                    violation("log-emission-mislabelled", format!("op {} ({}): expected a log record at level {} under target {:?} containing {:?}; got level {} target {:?} text {:?}", h.gi, h.op, w.0, w.1, w.2, g.level, g.target, g.text));
                    return;
                }
            }
        }
    }
    if before > 0 && after > 0 {
        nontrivial();
    }
}
