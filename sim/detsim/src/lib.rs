//! detsim — a deterministic baton scheduler for real OS threads.
//!
//! Exactly one registered thread runs at a time ("holds the baton"); every other registered thread
//! is parked on its own condition variable. At a *yield point* the holder asks the strategy who runs
//! next. All choices derive from one seed. Blocking is simulated (`block_until`), time is virtual.
//!
//! Threads that are not registered (before `run`, after it, or in late thread-local destructors) pass
//! through every entry point without a scheduling decision.

use std::cell::Cell;
use std::panic::{catch_unwind, AssertUnwindSafe};
use std::sync::atomic::{AtomicBool, AtomicU64, AtomicUsize, Ordering};
use std::sync::{Condvar, Mutex, MutexGuard};

pub mod rng;
pub use rng::Rng;

pub const MAX_THREADS: usize = 32;
const NONE: usize = usize::MAX;
const DEAD: usize = usize::MAX - 1;

#[derive(Clone, Copy, Debug, PartialEq, Eq)]
pub struct Switch {
    pub from: u32,
    pub nth: u64,
    pub to: u32,
}

#[derive(Clone, Debug)]
pub enum Strategy {
    /// never preempt: run the current thread until it blocks or exits, then lowest index
    RunToBlock,
    /// at each yield point switch with probability p/1000 to a uniformly chosen candidate
    Random { p: u32 },
    /// PCT: random priorities, `depth` priority change points within `horizon` steps
    Pct { depth: u32, horizon: u64 },
    /// run-to-block except forced switches at the given global step indices
    Targeted { points: Vec<u64> },
    /// follow an explicit switch list; default = continue, else lowest index
    Replay { switches: Vec<Switch> },
}

#[derive(Clone, Debug)]
pub struct Config {
    pub seed: u64,
    /// true: every yield point is live; false: only op boundaries and blocking
    pub sync_gran: bool,
    pub strategy: Strategy,
    pub step_cap: u64,
}

#[derive(Clone, Copy, Debug, PartialEq)]
enum Status {
    Runnable,
    Waiting { deadline: Option<u64>, tested_epoch: u64 },
    Done,
}

struct Thr {
    status: Status,
    yields: u64,
    prio: u64,
    foreign: bool,
    name: String,
}

#[derive(Clone, Debug, Default)]
pub struct Stats {
    pub steps: u64,
    pub decisions: u64,
    pub switches: u64,
    pub clock_ns: u64,
    pub threads: usize,
    pub digest: u64,
    pub time_jumps: u64,
    pub switch_list: Vec<Switch>,
    pub panics: Vec<(usize, String)>,
    pub tail: Vec<(u64, usize, &'static str)>,
}

struct State {
    threads: Vec<Thr>,
    baton: usize,
    step: u64,
    clock: u64,
    rng: Rng,
    sync_gran: bool,
    strategy: Strategy,
    step_cap: u64,
    change_points: Vec<u64>,
    digest: u64,
    decisions: u64,
    nswitches: u64,
    time_jumps: u64,
    switch_list: Vec<Switch>,
    panics: Vec<(usize, String)>,
    ring: Vec<(u64, usize, &'static str)>,
    handles: Vec<std::thread::JoinHandle<()>>,
    foreign_allow: usize,
}

impl State {
    const fn new() -> Self {
        State {
            threads: Vec::new(),
            baton: 0,
            step: 0,
            clock: 0,
            rng: Rng::zero(),
            sync_gran: false,
            strategy: Strategy::RunToBlock,
            step_cap: 0,
            change_points: Vec::new(),
            digest: 0,
            decisions: 0,
            nswitches: 0,
            time_jumps: 0,
            switch_list: Vec::new(),
            panics: Vec::new(),
            ring: Vec::new(),
            handles: Vec::new(),
            foreign_allow: 0,
        }
    }
}

struct Global {
    m: Mutex<State>,
    cv: [Condvar; MAX_THREADS],
}

static G: Global = Global { m: Mutex::new(State::new()), cv: [const { Condvar::new() }; MAX_THREADS] };
static ACTIVE: AtomicBool = AtomicBool::new(false);
static SYNC_GRAN: AtomicBool = AtomicBool::new(false);
static EPOCH: AtomicU64 = AtomicU64::new(1);
static STAMP: AtomicU64 = AtomicU64::new(0);
static FOREIGN_PENDING: AtomicUsize = AtomicUsize::new(0);
static ABORT_HOOK: Mutex<Option<fn(&str)>> = Mutex::new(None);

thread_local! {
    static ME: Cell<usize> = const { Cell::new(NONE) };
    static REG: RegGuard = const { RegGuard };
}

struct RegGuard;
impl Drop for RegGuard {
    fn drop(&mut self) {
        let me = ME.try_with(|m| m.replace(DEAD)).unwrap_or(NONE);
        if me < MAX_THREADS && ACTIVE.load(Ordering::SeqCst) {
            thread_exit(me);
        }
    }
}

fn lock() -> MutexGuard<'static, State> {
    match G.m.lock() {
        Ok(g) => g,
        Err(p) => p.into_inner(),
    }
}

/// `VERIF_TRACE=1`: print every scheduling decision (debugging aid; reads the environment once)
fn trace_on() -> bool {
    static ON: std::sync::OnceLock<bool> = std::sync::OnceLock::new();
    *ON.get_or_init(|| std::env::var_os("VERIF_TRACE").is_some())
}

fn me() -> usize {
    ME.try_with(|m| m.get()).unwrap_or(DEAD)
}

/// Is the calling thread a registered simulated thread of an active simulation?
pub fn in_sim() -> bool {
    ACTIVE.load(Ordering::Relaxed) && me() < MAX_THREADS
}

pub fn current() -> usize {
    me()
}

/// Global event sequence number (for history stamps). Never a scheduling point.
pub fn stamp() -> u64 {
    STAMP.fetch_add(1, Ordering::SeqCst) + 1
}

/// Declare that some resource was released / state changed, so waiters should re-test.
pub fn progress() {
    EPOCH.fetch_add(1, Ordering::SeqCst);
}

pub fn set_abort_hook(f: fn(&str)) {
    *ABORT_HOOK.lock().unwrap() = Some(f);
}

fn abort(st: MutexGuard<'static, State>, why: &str) -> ! {
    drop(st);
    let hook = *ABORT_HOOK.lock().unwrap();
    if let Some(h) = hook {
        h(why);
    }
    eprintln!("detsim abort: {why}");
    std::process::exit(3);
}

fn fnv(mut h: u64, x: u64) -> u64 {
    for i in 0..8 {
        h ^= (x >> (i * 8)) & 0xff;
        h = h.wrapping_mul(0x100000001b3);
    }
    h
}

fn site_hash(s: &str) -> u64 {
    let mut h = 0xcbf29ce484222325u64;
    for b in s.bytes() {
        h ^= b as u64;
        h = h.wrapping_mul(0x100000001b3);
    }
    h
}

fn maybe_register_foreign() -> bool {
    // Only threads spawned by code under test while the harness announced them.
    if FOREIGN_PENDING.load(Ordering::SeqCst) == 0 {
        return false;
    }
    if std::thread::panicking() {
        return false;
    }
    let mut st = lock();
    if st.foreign_allow == 0 {
        return false;
    }
    st.foreign_allow -= 1;
    let idx = st.threads.len();
    assert!(idx < MAX_THREADS, "too many simulated threads");
    let prio = st.rng.next_u64() | (1 << 32);
    st.threads.push(Thr { status: Status::Runnable, yields: 0, prio, foreign: true, name: "foreign".into() });
    let _ = REG.try_with(|_| {});
    ME.with(|m| m.set(idx));
    FOREIGN_PENDING.fetch_sub(1, Ordering::SeqCst);
    // park until scheduled
    while st.baton != idx {
        st = match G.cv[idx].wait(st) {
            Ok(g) => g,
            Err(p) => p.into_inner(),
        };
    }
    true
}

/// Announce that code under test is about to spawn `n` threads which must join the simulation at
/// their first shim call. Call `await_foreign` after the spawning call returned.
pub fn allow_foreign(n: usize) {
    if !in_sim() {
        return;
    }
    let mut st = lock();
    st.foreign_allow += n;
    FOREIGN_PENDING.fetch_add(n, Ordering::SeqCst);
}

/// Real (not simulated) wait until all announced foreign threads have registered and parked.
pub fn await_foreign() {
    if !in_sim() {
        return;
    }
    let t0 = std::time::Instant::now();
    while FOREIGN_PENDING.load(Ordering::SeqCst) != 0 {
        std::thread::yield_now();
        if t0.elapsed().as_secs() > 5 {
            let st = lock();
            abort(st, "harness:foreign-thread-did-not-register");
        }
    }
}

fn candidates(st: &State, me_idx: usize, me_can_continue: bool) -> Vec<usize> {
    let epoch = EPOCH.load(Ordering::SeqCst);
    let mut v = Vec::with_capacity(st.threads.len());
    for (i, t) in st.threads.iter().enumerate() {
        let ok = match t.status {
            Status::Runnable => i != me_idx || me_can_continue,
            Status::Waiting { deadline, tested_epoch } => {
                tested_epoch < epoch || deadline.map_or(false, |d| d <= st.clock)
            }
            Status::Done => false,
        };
        if ok {
            v.push(i);
        }
    }
    v
}

/// Choose the next thread. `me_can_continue` is false when the caller just blocked or exited.
fn pick(st: &mut MutexGuard<'static, State>, me_idx: usize, me_can_continue: bool, site: &'static str) -> Option<usize> {
    let mut cands = candidates(st, me_idx, me_can_continue);
    if cands.is_empty() {
        // time jump?
        let mut best: Option<u64> = None;
        for t in st.threads.iter() {
            if let Status::Waiting { deadline: Some(d), .. } = t.status {
                best = Some(best.map_or(d, |b| b.min(d)));
            }
        }
        match best {
            Some(d) => {
                if d > st.clock {
                    st.clock = d;
                }
                st.time_jumps += 1;
                cands = candidates(st, me_idx, me_can_continue);
            }
            None => return None,
        }
        if cands.is_empty() {
            return None;
        }
    }
    let nth = st.threads.get(me_idx).map_or(0, |t| t.yields);
    let step = st.step;
    if trace_on() {
        eprintln!("TRACE step={} me={} site={} cands={:?} epoch={} clock={}", step, me_idx, site, cands, EPOCH.load(Ordering::SeqCst), st.clock);
    }
    let choice = if cands.len() == 1 {
        cands[0]
    } else {
        let cont = me_can_continue && cands.contains(&me_idx);
        let strat = std::mem::replace(&mut st.strategy, Strategy::RunToBlock);
        let c = match &strat {
            Strategy::RunToBlock => {
                if cont {
                    me_idx
                } else {
                    cands[0]
                }
            }
            Strategy::Random { p } => {
                let p = *p;
                if cont && (st.rng.below(1000) as u32) >= p {
                    me_idx
                } else {
                    let k = st.rng.below(cands.len() as u64) as usize;
                    cands[k]
                }
            }
            Strategy::Pct { .. } => {
                if st.change_points.contains(&step) && me_idx < st.threads.len() {
                    // demote the running thread below everybody
                    let low = st.change_points.iter().position(|&c| c == step).unwrap() as u64;
                    st.threads[me_idx].prio = low; // change-point priorities are < all initial ones
                }
                let mut best = cands[0];
                for &c in &cands {
                    if st.threads[c].prio > st.threads[best].prio {
                        best = c;
                    }
                }
                best
            }
            Strategy::Targeted { points } => {
                if points.contains(&step) {
                    let others: Vec<usize> = cands.iter().copied().filter(|&c| c != me_idx).collect();
                    if others.is_empty() {
                        me_idx
                    } else {
                        let k = st.rng.below(others.len() as u64) as usize;
                        others[k]
                    }
                } else if cont {
                    me_idx
                } else {
                    let k = st.rng.below(cands.len() as u64) as usize;
                    cands[k]
                }
            }
            Strategy::Replay { switches } => {
                let want = switches
                    .iter()
                    .find(|s| s.from as usize == me_idx && s.nth == nth)
                    .map(|s| s.to as usize);
                match want {
                    Some(t) if cands.contains(&t) => t,
                    _ => {
                        if cont {
                            me_idx
                        } else {
                            cands[0]
                        }
                    }
                }
            }
        };
        st.strategy = strat;
        st.decisions += 1;
        let d = st.digest;
        st.digest = fnv(fnv(fnv(d, c as u64), cands.len() as u64), site_hash(site) ^ (me_idx as u64) << 56);
        c
    };
    if choice != me_idx {
        st.nswitches += 1;
        if st.switch_list.len() < 20_000 {
            st.switch_list.push(Switch { from: me_idx as u32, nth, to: choice as u32 });
        }
    }
    Some(choice)
}

fn hand_over(mut st: MutexGuard<'static, State>, me_idx: usize, next: usize, park: bool) {
    if next != me_idx {
        st.baton = next;
        G.cv[next].notify_one();
        if park {
            while st.baton != me_idx {
                st = match G.cv[me_idx].wait(st) {
                    Ok(g) => g,
                    Err(p) => p.into_inner(),
                };
            }
        }
    }
}

fn note(st: &mut State, me_idx: usize, site: &'static str) {
    st.step += 1;
    st.threads[me_idx].yields += 1;
    if st.ring.len() < 256 {
        st.ring.push((st.step, me_idx, site));
    } else {
        let k = (st.step % 256) as usize;
        st.ring[k] = (st.step, me_idx, site);
    }
}

fn do_yield(site: &'static str, force: bool) {
    if !ACTIVE.load(Ordering::Relaxed) {
        return;
    }
    let mut m = me();
    if m == NONE {
        if !maybe_register_foreign() {
            return;
        }
        m = me();
    }
    if m >= MAX_THREADS {
        return;
    }
    EPOCH.fetch_add(1, Ordering::SeqCst);
    if !force && !SYNC_GRAN.load(Ordering::Relaxed) {
        return;
    }
    if std::thread::panicking() && !simulate_unwinding() {
        return;
    }
    let mut st = lock();
    debug_assert_eq!(st.baton, m);
    note(&mut st, m, site);
    if st.step > st.step_cap {
        // a thread that is the only runnable one and has been taking every step for the whole ring is spinning
        // without contention: nothing another thread does can ever end its loop
        let solo = st.ring.len() == 256
            && st.ring.iter().all(|(_, t, _)| *t == m)
            && st.threads.iter().enumerate().all(|(i, t)| i == m || !matches!(t.status, Status::Runnable));
        if solo {
            let why = format!("step-cap:solo-spin thread {m} ({}) is the only runnable thread and loops at {site}", st.threads[m].name);
            abort(st, &why);
        }
        abort(st, "step-cap");
    }
    match pick(&mut st, m, true, site) {
        Some(next) => hand_over(st, m, next, true),
        None => abort(st, "harness:no-candidate-at-yield"),
    }
}

thread_local! {
    static SIM_UNWINDING: std::cell::Cell<bool> = const { std::cell::Cell::new(false) };
}
/// By default a thread that is unwinding from a panic takes no scheduling points (destructors run straight through).
/// A harness that wants a *blocking* destructor to run under the scheduler while its thread unwinds (a guard whose drop
/// waits for another simulated thread) switches that off for the calling thread.
pub fn set_simulate_unwinding(on: bool) {
    SIM_UNWINDING.with(|c| c.set(on));
}
fn simulate_unwinding() -> bool {
    SIM_UNWINDING.try_with(|c| c.get()).unwrap_or(false)
}

/// A preemption point inside an operation (live only in `sync` granularity).
#[inline]
pub fn yield_point(site: &'static str) {
    if ACTIVE.load(Ordering::Relaxed) {
        do_yield(site, false);
    }
}

/// A preemption point between workload operations (always live).
pub fn op_boundary(site: &'static str) {
    do_yield(site, true);
}

/// Simulated blocking: returns true once `test()` holds, false if the virtual deadline passed first.
/// `test` runs while holding the baton, so it may touch shared state freely but must not block.
pub fn block_until(site: &'static str, deadline: Option<u64>, mut test: impl FnMut() -> bool) -> bool {
    let mut m = me();
    if ACTIVE.load(Ordering::Relaxed) && m == NONE {
        if maybe_register_foreign() {
            m = me();
        }
    }
    if !ACTIVE.load(Ordering::Relaxed) || m >= MAX_THREADS || (std::thread::panicking() && !simulate_unwinding()) {
        // outside the simulation: real spinning, real (bounded) patience for timed waits
        let t0 = std::time::Instant::now();
        loop {
            if test() {
                return true;
            }
            if deadline.is_some() && t0.elapsed().as_millis() > 200 {
                return false;
            }
            if t0.elapsed().as_secs() > 30 {
                return false;
            }
            std::thread::yield_now();
        }
    }
    EPOCH.fetch_add(1, Ordering::SeqCst);
    loop {
        // test at the current epoch
        let epoch = EPOCH.load(Ordering::SeqCst);
        if test() {
            let mut st = lock();
            st.threads[m].status = Status::Runnable;
            drop(st);
            EPOCH.fetch_add(1, Ordering::SeqCst);
            return true;
        }
        let mut st = lock();
        if let Some(d) = deadline {
            if st.clock >= d {
                st.threads[m].status = Status::Runnable;
                return false;
            }
        }
        note(&mut st, m, site);
        if st.step > st.step_cap {
            abort(st, "step-cap");
        }
        st.threads[m].status = Status::Waiting { deadline, tested_epoch: epoch };
        match pick(&mut st, m, false, site) {
            Some(next) => hand_over(st, m, next, true),
            None => {
                let names: Vec<String> = st
                    .threads
                    .iter()
                    .enumerate()
                    .filter(|(_, t)| matches!(t.status, Status::Waiting { .. }))
                    .map(|(i, t)| format!("{}:{}", i, t.name))
                    .collect();
                let why = format!("deadlock at {site} waiting=[{}]", names.join(","));
                abort(st, &why)
            }
        }
    }
}

fn thread_exit(m: usize) {
    let mut st = lock();
    if m >= st.threads.len() {
        return;
    }
    st.threads[m].status = Status::Done;
    EPOCH.fetch_add(1, Ordering::SeqCst);
    if st.baton != m {
        return;
    }
    note(&mut st, m, "thread-exit");
    match pick(&mut st, m, false, "thread-exit") {
        Some(next) => hand_over(st, m, next, false),
        None => {
            // nobody left to run: fine if everybody is done, otherwise the rest is stuck
            let all_done = st.threads.iter().all(|t| t.status == Status::Done);
            if !all_done {
                abort(st, "deadlock at thread-exit");
            }
        }
    }
}

/// Spawn a simulated harness thread. The caller keeps the baton; the new thread starts parked.
pub fn spawn<F: FnOnce() + Send + 'static>(name: &str, f: F) -> usize {
    assert!(in_sim(), "detsim::spawn outside a simulation");
    let mut st = lock();
    let idx = st.threads.len();
    assert!(idx < MAX_THREADS, "too many simulated threads");
    let prio = st.rng.next_u64() | (1 << 32);
    st.threads.push(Thr { status: Status::Runnable, yields: 0, prio, foreign: false, name: name.to_string() });
    let h = std::thread::Builder::new()
        .name(name.to_string())
        .spawn(move || {
            REG.with(|_| {});
            ME.with(|m| m.set(idx));
            {
                let mut st = lock();
                while st.baton != idx {
                    st = match G.cv[idx].wait(st) {
                        Ok(g) => g,
                        Err(p) => p.into_inner(),
                    };
                }
            }
            let r = catch_unwind(AssertUnwindSafe(f));
            if let Err(p) = r {
                let msg = panic_msg(&p);
                lock().panics.push((idx, msg));
            }
        })
        .expect("spawn");
    st.handles.push(h);
    idx
}

pub fn panic_msg(p: &Box<dyn std::any::Any + Send>) -> String {
    if let Some(s) = p.downcast_ref::<&'static str>() {
        s.to_string()
    } else if let Some(s) = p.downcast_ref::<String>() {
        s.clone()
    } else {
        "<non-string panic payload>".into()
    }
}

/// Wait (simulated) until thread `idx` has finished.
pub fn join(idx: usize) {
    block_until("join", None, || {
        let st = lock();
        st.threads.get(idx).map_or(true, |t| t.status == Status::Done)
    });
}

pub fn is_done(idx: usize) -> bool {
    let st = lock();
    st.threads.get(idx).map_or(true, |t| t.status == Status::Done)
}

pub fn thread_count() -> usize {
    lock().threads.len()
}

/// Virtual clock (nanoseconds since the simulation's epoch).
pub fn now_ns() -> u64 {
    lock().clock
}

pub fn advance_ns(d: u64) {
    let mut st = lock();
    st.clock = st.clock.saturating_add(d);
    drop(st);
    EPOCH.fetch_add(1, Ordering::SeqCst);
}

pub fn set_clock_ns(t: u64) {
    let mut st = lock();
    st.clock = t;
    drop(st);
    EPOCH.fetch_add(1, Ordering::SeqCst);
}

/// Draw from the simulation's PRNG (for buggify-style coins inside shims/sinks).
pub fn draw(n: u64) -> u64 {
    if !in_sim() {
        return 0;
    }
    lock().rng.below(n.max(1))
}

pub fn steps() -> u64 {
    lock().step
}

/// Run `main` as simulated thread 0. Returns when main returned and every harness thread is done.
pub fn run<R>(cfg: Config, main: impl FnOnce() -> R) -> (R, Stats) {
    assert!(!ACTIVE.load(Ordering::SeqCst), "nested detsim::run");
    {
        let mut st = lock();
        *st = State::new();
        st.rng = Rng::new(cfg.seed ^ 0x5ced_a11e_d00d_f00d);
        st.sync_gran = cfg.sync_gran;
        st.step_cap = cfg.step_cap;
        if let Strategy::Pct { depth, horizon } = &cfg.strategy {
            let mut cps = Vec::new();
            for _ in 0..*depth {
                let c = st.rng.below((*horizon).max(1));
                cps.push(c);
            }
            st.change_points = cps;
        }
        st.strategy = cfg.strategy.clone();
        let prio = st.rng.next_u64() | (1 << 32);
        st.threads.push(Thr { status: Status::Runnable, yields: 0, prio, foreign: false, name: "main".into() });
        st.baton = 0;
    }
    SYNC_GRAN.store(cfg.sync_gran, Ordering::SeqCst);
    REG.with(|_| {});
    ME.with(|m| m.set(0));
    ACTIVE.store(true, Ordering::SeqCst);
    let r = main();
    // wait for harness threads (foreign ones may legitimately be stuck; the oracle judges that)
    block_until("join-all", None, || {
        let st = lock();
        st.threads.iter().skip(1).all(|t| t.foreign || t.status == Status::Done)
    });
    ACTIVE.store(false, Ordering::SeqCst);
    ME.with(|m| m.set(NONE));
    let (handles, stats) = {
        let mut st = lock();
        let handles = std::mem::take(&mut st.handles);
        let mut tail: Vec<_> = st.ring.clone();
        tail.sort();
        let stats = Stats {
            steps: st.step,
            decisions: st.decisions,
            switches: st.nswitches,
            clock_ns: st.clock,
            threads: st.threads.len(),
            digest: st.digest,
            time_jumps: st.time_jumps,
            switch_list: st.switch_list.clone(),
            panics: st.panics.clone(),
            tail,
        };
        (handles, stats)
    };
    for h in handles {
        let _ = h.join();
    }
    (r, stats)
}

/// Snapshot of statistics while the simulation is still running (used by abort hooks).
pub fn stats_snapshot() -> Stats {
    let st = lock();
    let mut tail: Vec<_> = st.ring.clone();
    tail.sort();
    Stats {
        steps: st.step,
        decisions: st.decisions,
        switches: st.nswitches,
        clock_ns: st.clock,
        threads: st.threads.len(),
        digest: st.digest,
        time_jumps: st.time_jumps,
        switch_list: st.switch_list.clone(),
        panics: st.panics.clone(),
        tail,
    }
}
