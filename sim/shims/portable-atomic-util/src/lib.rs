//! Shim for `portable-atomic-util`: std's reference-counted pointers (no scheduling points: the
//! reference counts of `Arc` are third-party state scheduled as atomic steps, see DESIGN.md §9).
pub use std::sync::{Arc, Weak};
pub mod task {
    pub use std::task::Wake;
}
