//! stack-sim, part 4: C11 — directives: the most specific match wins, filters round-trip, and span-scoped
//! directives raise the level exactly while a matching span is entered on the thread.
//! Four replica collectors run the same history: (a) Targets, (b) EnvFilter, (c) EnvFilter re-parsed from
//! (b)'s Display, (d) EnvFilter as a per-layer filter.
use crate::driver::finding_open;
use crate::fsites;
use crate::fw::*;
use crate::reclayer::{self, LRec, RecLayer};
use crate::sites;
use detsim::Rng;
use serde_json::{json, Value};
use std::collections::HashMap;
use std::sync::atomic::{AtomicUsize, Ordering};
use std::sync::Mutex;
use tracing::Span;
use tracing_core::dispatch::{self, Dispatch};
use tracing_subscriber::filter::Targets;
use tracing_subscriber::prelude::*;
use tracing_subscriber::{EnvFilter, Registry};

pub struct DirectiveEngine;

const LEVELS: [&str; 6] = ["off", "error", "warn", "info", "debug", "trace"];

fn spell(level: u64, how: u64) -> String {
    let n = LEVELS[level.min(5) as usize];
    match how % 4 {
        0 => n.to_string(),
        1 => n.to_uppercase(),
        2 => {
            let mut c = n.chars();
            c.next().map(|f| f.to_uppercase().collect::<String>() + c.as_str()).unwrap_or_default()
        }
        _ => level.min(5).to_string(),
    }
}

/// Render one directive. `{"target":?, "span":?, "fields":[[name, value|null]], "level":?, "spell":n}`
fn render(d: &Value) -> String {
    let mut s = String::new();
    if let Some(t) = d["target"].as_str() {
        s.push_str(t);
    }
    let fields = d["fields"].as_array().cloned().unwrap_or_default();
    if d["span"].is_string() || !fields.is_empty() {
        s.push('[');
        if let Some(n) = d["span"].as_str() {
            s.push_str(n);
        }
        if !fields.is_empty() {
            s.push('{');
            let fs: Vec<String> = fields
                .iter()
                .map(|f| match &f[1] {
                    Value::Null => f[0].as_str().unwrap_or("").to_string(),
                    Value::String(v) => format!("{}={}", f[0].as_str().unwrap_or(""), v),
                    v => format!("{}={}", f[0].as_str().unwrap_or(""), v),
                })
                .collect();
            s.push_str(&fs.join(","));
            s.push('}');
        }
        s.push(']');
    }
    match d["level"].as_u64() {
        Some(l) => {
            if !s.is_empty() {
                s.push('=');
            }
            s.push_str(&spell(l, d["spell"].as_u64().unwrap_or(0)));
        }
        None => {}
    }
    s
}

fn is_dynamic(d: &Value) -> bool {
    // a directive is span-scoped iff it names a span or matches a field *value*; field names alone are static
    d["span"].is_string() || d["fields"].as_array().map_or(false, |a| a.iter().any(|f| !f[1].is_null()))
}
/// EnvFilter treats a directive with a span name or any field (even without a value) as span-scoped; a
/// directive without span name and without values is (also) static.
fn is_span_scoped(d: &Value) -> bool {
    d["span"].is_string() || d["fields"].as_array().map_or(false, |a| !a.is_empty())
}
fn dir_level(d: &Value) -> u64 {
    d["level"].as_u64().unwrap_or(5)
}

#[derive(Clone, Debug, Default)]
struct H {
    rep: usize,
    gi: usize,
    t: usize,
    op: String,
    applied: bool,
    uid: u64,
    site: usize,
    fsite: usize,
    x: i64,
    flag: bool,
    who: String,
    y: i64,
    slot: usize,
    enabled_handle: bool,
    would: i64,
}
static HIST: Mutex<Vec<H>> = Mutex::new(Vec::new());
static TURN: AtomicUsize = AtomicUsize::new(0);
static ENTERED_ANY: Mutex<Vec<(usize, u64)>> = Mutex::new(Vec::new());
thread_local! {
    /// per thread: (replica, slot, uid) of the spans this thread entered
    static ENTERED_SLOT: std::cell::RefCell<Vec<(usize, usize, u64)>> = const { std::cell::RefCell::new(Vec::new()) };
}
const NSLOTS: usize = 6;

struct SlotE {
    span: Span,
    uid: u64,
}

struct Replica {
    dispatch: Dispatch,
    targets: Option<Targets>,
}

fn build_replicas(dirs: &str, with_targets: bool) -> Result<Vec<Option<Replica>>, String> {
    let mut reps: Vec<Option<Replica>> = vec![];
    // (a) Targets, when it accepts the string
    match if with_targets { dirs.parse::<Targets>().map_err(|_| ()) } else { Err(()) } {
        Ok(t) => {
            let leaf = RecLayer::new(0, 0);
            leaf.cfg.walk.store(false, Ordering::SeqCst);
            reps.push(Some(Replica { dispatch: Dispatch::new(Registry::default().with(t.clone()).with(leaf)), targets: Some(t) }));
        }
        Err(_) => reps.push(None),
    }
    // (b) EnvFilter from the string (strict parse: the generator only emits valid directives)
    let b = EnvFilter::builder().parse(dirs).map_err(|e| format!("EnvFilter rejected the generated directives {dirs:?}: {e}"))?;
    let shown = b.to_string();
    let leaf = RecLayer::new(1, 0);
    leaf.cfg.walk.store(false, Ordering::SeqCst);
    reps.push(Some(Replica { dispatch: Dispatch::new(Registry::default().with(b).with(leaf)), targets: None }));
    // (c) re-parsed from Display
    let c = EnvFilter::builder().parse(&shown).map_err(|e| format!("[display-unparsable] Display of the parsed filter {shown:?} does not parse: {e}"))?;
    let leaf = RecLayer::new(2, 0);
    leaf.cfg.walk.store(false, Ordering::SeqCst);
    reps.push(Some(Replica { dispatch: Dispatch::new(Registry::default().with(c).with(leaf)), targets: None }));
    // (d) as a per-layer filter
    let d = EnvFilter::builder().parse(dirs).map_err(|e| e.to_string())?;
    let leaf = RecLayer::new(3, 0);
    leaf.cfg.walk.store(false, Ordering::SeqCst);
    reps.push(Some(Replica { dispatch: Dispatch::new(Registry::default().with(leaf.with_filter(d))), targets: None }));
    Ok(reps)
}

fn exec_step(rep: usize, gi: usize, t: usize, s: &Value, slots: &Mutex<Vec<Option<SlotE>>>, entered: &mut Vec<(u64, tracing_core::span::Id, Dispatch)>, targets: &Option<Targets>) {
    let op = s["op"].as_str().unwrap_or("").to_string();
    let slot = s["slot"].as_u64().unwrap_or(0) as usize % NSLOTS;
    let uid = (gi as u64 + 1) * 1000;
    let mut h = H { rep, gi, t, op: op.clone(), applied: true, slot, would: -1, ..Default::default() };
    match op.as_str() {
        "fspan" | "span" => {
            let occupied = slots.lock().unwrap()[slot].is_some();
            if occupied {
                h.applied = false;
            } else {
                let sp = if op == "fspan" {
                    h.fsite = s["fsite"].as_u64().unwrap_or(0) as usize % fsites::N;
                    h.x = s["x"].as_i64().unwrap_or(0);
                    h.flag = s["flag"].as_bool().unwrap_or(false);
                    h.who = s["who"].as_str().unwrap_or("alice").to_string();
                    let nested = s["nested"].as_bool().unwrap_or(false);
                    let who = match (h.who.as_str(), nested) {
                        ("bob", false) => fsites::Who::Name("bob"),
                        ("bob", true) => fsites::Who::Nested("bob"),
                        (_, false) => fsites::Who::Name("alice"),
                        (_, true) => fsites::Who::Nested("alice"),
                    };
                    fsites::make(h.fsite, h.x, h.flag, uid, &who)
                } else {
                    h.site = s["site"].as_u64().unwrap_or(0) as usize % sites::N;
                    sites::make_span(h.site, uid)
                };
                h.uid = uid;
                h.enabled_handle = !sp.is_disabled();
                slots.lock().unwrap()[slot] = Some(SlotE { span: sp, uid });
            }
        }
        "fspan_boom" => {
            // fault: a span whose `who` field panics in its Debug impl - which runs only if a directive's pattern
            // matcher looks at that field; the panic is caught here and no span is kept either way
            fault("panic_in_span_field_debug");
            let fsite = s["fsite"].as_u64().unwrap_or(0) as usize % fsites::N;
            let r = std::panic::catch_unwind(|| drop(fsites::make(fsite, 0, false, uid, &fsites::Who::Boom)));
            h.applied = false;
            let _ = r;
        }
        "enter" => {
            let e = slots.lock().unwrap()[slot].take();
            match e {
                Some(e) => {
                    h.uid = e.uid;
                    match e.span.with_collector(|(id, d)| (id.clone(), d.clone())) {
                        Some((id, d)) if !entered.iter().any(|x| x.0 == e.uid) => {
                            d.enter(&id);
                            entered.push((e.uid, id, d));
                            ENTERED_ANY.lock().unwrap().push((rep, e.uid));
                            ENTERED_SLOT.with(|m| m.borrow_mut().push((rep, slot, e.uid)));
                        }
                        _ => h.applied = false,
                    }
                    slots.lock().unwrap()[slot] = Some(e);
                }
                None => h.applied = false,
            }
        }
        "exit" => {
            // exit the span held in `slot` (the generator keeps enter/exit well nested); a span that is
            // disabled under this replica was never entered, so this is a no-op there
            // (by the slot it was entered from: its handle may have been dropped meanwhile)
            let pos = ENTERED_SLOT.with(|m| m.borrow().iter().rposition(|x| x.0 == rep && x.1 == slot).map(|i| m.borrow()[i].2)).and_then(|u| entered.iter().rposition(|x| x.0 == u));
            match pos {
                Some(p) => {
                    let (u, id, d) = entered.remove(p);
                    h.uid = u;
                    if rep == 3 && s["cb_panic"].as_bool().unwrap_or(false) {
                        // fault (per-layer-filter replica only): the filtered layer's on_exit panics, caught; the
                        // filter must have been told about the exit all the same
                        crate::reclayer::PANIC_ON_EXIT_ANY.with(|c| c.set(true));
                        let _ = std::panic::catch_unwind(std::panic::AssertUnwindSafe(|| d.exit(&id)));
                        crate::reclayer::PANIC_ON_EXIT_ANY.with(|c| c.set(false));
                    } else {
                        d.exit(&id);
                    }
                    ENTERED_ANY.lock().unwrap().retain(|x| *x != (rep, u));
                    ENTERED_SLOT.with(|m| m.borrow_mut().retain(|x| !(x.0 == rep && x.2 == u)));
                }
                None => h.applied = false,
            }
        }
        "record_y" => {
            let e = slots.lock().unwrap()[slot].take();
            match e {
                Some(e) => {
                    h.uid = e.uid;
                    h.y = s["y"].as_i64().unwrap_or(0);
                    // while F17 is open, must-hold histories record a value only while the span is not entered
                    e.span.record("y", h.y);
                    slots.lock().unwrap()[slot] = Some(e);
                }
                None => h.applied = false,
            }
        }
        "drop" => {
            let e = slots.lock().unwrap()[slot].take();
            match e {
                // (the generator never drops a handle while its span is entered anywhere: that is finding F13;
                // the decision is static so that every replica runs the same history)
                Some(e) => {
                    h.uid = e.uid;
                    drop(e.span);
                }
                None => h.applied = false,
            }
        }
        "event" => {
            h.site = s["site"].as_u64().unwrap_or(0) as usize % sites::N;
            h.uid = uid;
            if let Some(t) = targets {
                let (lvl, tg) = sites::SITES[h.site];
                h.would = t.would_enable(sites::TARGETS[tg as usize], &sites::level_of(lvl)) as i64;
            }
            sites::emit_event(h.site, uid);
        }
        _ => h.applied = false,
    }
    ev(format!("rep{rep} op{gi} t{t} {op} applied={} uid={} en={}", h.applied, h.uid, h.enabled_handle));
    HIST.lock().unwrap().push(h);
}

fn gen_directive(rng: &mut Rng, dynamic_ok: bool) -> Value {
    let targets = ["app", "app::db", "application", "other", "ap", "app::", "oth", "app::db::x"];
    let sp = rng.below(8);
    let roll = rng.below(100);
    if dynamic_ok && roll < 35 {
        // span-scoped: levels >= INFO so that the (INFO) field spans themselves are within reach
        let level = rng.range(3, 5);
        let target = if rng.chance(1, 3) { json!(*rng.pick(&["app", "app::db", "other", "ap"])) } else { Value::Null };
        let span = if rng.chance(3, 4) { json!(*rng.pick(&["alpha", "beta"])) } else { Value::Null };
        let mut fields: Vec<Value> = vec![];
        if span.is_null() || rng.chance(1, 2) {
            match rng.below(4) {
                0 => fields.push(json!(["x", rng.below(3) as i64])),
                1 => fields.push(json!(["flag", rng.chance(1, 2)])),
                2 => fields.push(json!(["who", *rng.pick(&["alice", "bob"])])),
                _ => fields.push(json!(["y", rng.below(3) as i64])),
            }
            // (one field per directive: the directive list is split on ',' before field lists are parsed)
        }
        return json!({"target": target, "span": span, "fields": fields, "level": level, "spell": sp});
    }
    match roll % 10 {
        // static directive with a field-name constraint (matches only events that have the field; for spans
        // field names are ignored)
        2 | 3 if roll % 3 == 0 => json!({"target": *rng.pick(&targets), "fields": [[*rng.pick(&["val", "val", "nope"]), Value::Null]], "level": rng.range(3, 5), "spell": sp}),
        0 => json!({"level": rng.below(6), "spell": sp}),                              // bare level
        1 => json!({"target": *rng.pick(&targets), "spell": sp}),                       // bare target (= TRACE)
        _ => json!({"target": *rng.pick(&targets), "level": rng.below(6), "spell": sp}),
    }
}

impl Engine for DirectiveEngine {
    fn name(&self) -> &'static str {
        "directive-sim"
    }
    fn props(&self) -> &'static [&'static str] {
        &["C11"]
    }
    fn modes(&self, _p: &str) -> Vec<String> {
        let mut m = vec!["must".to_string()];
        if finding_open("F17") {
            m.push("probe:F17".into());
        }
        if finding_open("F18") {
            m.push("probe:F18".into());
        }
        m
    }
    fn rule(&self, _p: &str) -> String {
        "per run: <=8 directives from the documented grammar (shared target prefixes, duplicates and conflicts in any order, bare level / bare target, level names in any case or as digits, span names, field value matchers for int/bool and a pattern matcher on a Debug-valued field; fault: that field's Debug impl panics, caught) and a well-nested enter/exit/record history over named spans with typed fields, pool spans and pool events on 1-2 threads, executed under four replica collectors (Targets, EnvFilter, EnvFilter re-parsed from Display, EnvFilter as per-layer filter); a quarter of the runs with span-scoped directives instead race two threads (each with its own spans) on one EnvFilter under seeded schedules, contending its callsite/span matcher tables and first hits of shared callsites (a third of those with the filter as the process-wide default and field values whose Debug impl creates a span of its own while the filter matches them); non-trivial = at least one emission enabled only by a span-scoped directive and one suppressed after the span was exited, or (static sets) at least one emission decided by a longest-prefix tie-break; distinct = distinct plan digest".into()
    }
    fn components(&self) -> Value {
        json!({"real": ["tracing_subscriber::filter::Targets (FromStr, would_enable, Subscribe)", "EnvFilter (Builder::parse, Display, Subscribe and Filter impls, by_cs/by_id/scope)", "Registry, Filtered", "tracing macros"], "stub": ["recording layer"]})
    }
    fn generate(&self, g: &GenCtx) -> Value {
        let mut rng = Rng::new(g.seed);
        let dynamic_ok = rng.chance(2, 3) || g.mode == "probe:F18";
        let nd = rng.range(1, 8);
        let dirs: Vec<Value> = (0..nd).map(|_| gen_directive(&mut rng, dynamic_ok)).collect();
        let nthreads = rng.range(1, 2);
        let n = rng.range(5, if g.tier == "thorough" { 40 } else { 26 });
        let guard = finding_open("F17") && g.mode != "probe:F17";
        let mut steps = vec![];
        let mut gen_stack: Vec<Vec<u64>> = vec![vec![]; nthreads as usize];
        for _ in 0..n {
            let t = rng.below(nthreads);
            let slot = rng.below(NSLOTS as u64);
            steps.push(match rng.below(100) {
                0..=17 => json!({"t": t, "op": "fspan", "slot": slot, "fsite": rng.below(fsites::N as u64), "x": rng.below(3) as i64, "flag": rng.chance(1, 2), "who": *rng.pick(&["alice", "alice", "bob"])}),
                18..=20 if dynamic_ok => json!({"t": t, "op": "fspan_boom", "fsite": rng.below(fsites::N as u64)}),
                18..=24 => json!({"t": t, "op": "span", "slot": slot, "site": rng.below(20)}),
                25..=41 => {
                    if gen_stack[t as usize].contains(&slot) || gen_stack.iter().any(|v| v.contains(&slot)) {
                        json!({"t": t, "op": "event", "site": rng.below(20)})
                    } else {
                        gen_stack[t as usize].push(slot);
                        json!({"t": t, "op": "enter", "slot": slot})
                    }
                }
                42..=54 => match gen_stack[t as usize].pop() {
                    Some(sl) => json!({"t": t, "op": "exit", "slot": sl, "cb_panic": rng.chance(1, 6)}),
                    None => json!({"t": t, "op": "event", "site": rng.below(20)}),
                },
                55..=62 => {
                    // while F17 is open, must-hold histories record a value only while the span is not entered anywhere
                    if guard && gen_stack.iter().any(|v| v.contains(&slot)) {
                        json!({"t": t, "op": "event", "site": rng.below(20)})
                    } else {
                        json!({"t": t, "op": "record_y", "slot": slot, "y": rng.below(3) as i64})
                    }
                }
                63..=68 => {
                    // (while F13 is open, never drop a handle whose span is entered somewhere)
                    if finding_open("F13") && gen_stack.iter().any(|v| v.contains(&slot)) {
                        json!({"t": t, "op": "event", "site": rng.below(20)})
                    } else {
                        json!({"t": t, "op": "drop", "slot": slot})
                    }
                }
                _ => json!({"t": t, "op": "event", "site": rng.below(20)}),
            });
        }
        let (dirs, nthreads, steps) = if g.mode == "probe:F17" && rng.chance(1, 2) {
            // structured variant of the trigger: a matching outer span stays entered while an inner span starts to
            // match (a value recorded while it is entered) and is exited; the outer span's raise must survive that
            let k = rng.below(3) as i64;
            let mut dirs = vec![
                json!({"target": Value::Null, "span": "alpha", "fields": [], "level": rng.range(4, 5), "spell": rng.below(8)}),
                json!({"target": Value::Null, "span": "beta", "fields": [["y", k]], "level": rng.range(3, 5), "spell": rng.below(8)}),
            ];
            for _ in 0..rng.below(3) {
                dirs.push(gen_directive(&mut rng, false));
            }
            let mut st = vec![
                json!({"t": 0, "op": "fspan", "slot": 0, "fsite": *rng.pick(&[0u64, 2, 4]), "x": rng.below(3) as i64, "flag": rng.chance(1, 2), "who": *rng.pick(&["alice", "alice", "bob"])}),
                json!({"t": 0, "op": "enter", "slot": 0}),
                json!({"t": 0, "op": "fspan", "slot": 1, "fsite": *rng.pick(&[1u64, 3, 5]), "x": rng.below(3) as i64, "flag": rng.chance(1, 2), "who": *rng.pick(&["alice", "alice", "bob"])}),
                json!({"t": 0, "op": "enter", "slot": 1}),
                json!({"t": 0, "op": "record_y", "slot": 1, "y": if rng.chance(3, 4) { k } else { (k + 1) % 3 }}),
            ];
            for _ in 0..rng.below(2) {
                st.push(json!({"t": 0, "op": "event", "site": rng.below(20)}));
            }
            st.push(json!({"t": 0, "op": "exit", "slot": 1}));
            for _ in 0..rng.range(1, 4) {
                st.push(json!({"t": 0, "op": "event", "site": rng.below(20)}));
            }
            st.push(json!({"t": 0, "op": "exit", "slot": 0}));
            st.push(json!({"t": 0, "op": "event", "site": rng.below(20)}));
            (dirs, 1, st)
        } else {
            (dirs, nthreads, steps)
        };
        // race variant (must-hold only): two threads, each with its own slots, under seeded schedules
        if g.mode == "must" && dirs.iter().any(is_span_scoped) && rng.chance(1, 3) {
            let mut st = vec![];
            let mut stack: Vec<Vec<u64>> = vec![vec![]; 2];
            // both threads begin by hitting the same span callsite for the first time, enter it and emit inside
            if rng.chance(2, 3) {
                let f0 = rng.below(fsites::N as u64);
                for t in 0..2u64 {
                    st.push(json!({"t": t, "op": "fspan", "slot": t, "fsite": f0, "x": rng.below(3) as i64, "flag": rng.chance(1, 2), "who": *rng.pick(&["alice", "alice", "bob"])}));
                    st.push(json!({"t": t, "op": "enter", "slot": t}));
                    stack[t as usize].push(t);
                    st.push(json!({"t": t, "op": "event", "site": rng.below(20)}));
                }
            }
            for _ in 0..rng.range(6, 16) {
                let t = rng.below(2);
                let own: Vec<u64> = (0..NSLOTS as u64).filter(|s| s % 2 == t).collect();
                let slot = *rng.pick(&own);
                st.push(match rng.below(100) {
                    0..=29 => json!({"t": t, "op": "fspan", "slot": slot, "fsite": rng.below(fsites::N as u64), "x": rng.below(3) as i64, "flag": rng.chance(1, 2), "who": *rng.pick(&["alice", "alice", "bob"])}),
                    30..=49 => {
                        if stack[t as usize].contains(&slot) {
                            json!({"t": t, "op": "event", "site": rng.below(20)})
                        } else {
                            stack[t as usize].push(slot);
                            json!({"t": t, "op": "enter", "slot": slot})
                        }
                    }
                    50..=61 => match stack[t as usize].pop() {
                        Some(sl) => json!({"t": t, "op": "exit", "slot": sl}),
                        None => json!({"t": t, "op": "event", "site": rng.below(20)}),
                    },
                    62..=69 => {
                        if stack[t as usize].contains(&slot) {
                            json!({"t": t, "op": "event", "site": rng.below(20)})
                        } else {
                            json!({"t": t, "op": "record_y", "slot": slot, "y": rng.below(3) as i64})
                        }
                    }
                    _ => json!({"t": t, "op": "event", "site": rng.below(20)}),
                });
            }
            let sched = Sched::swarm(&mut rng, 400);
            // a third of the race runs install the EnvFilter replica as the process-wide default (each run is its own
            // process) instead of a scoped default per thread - no re-entry guard between a callback and an emission
            // made from inside it - and let some `who` values create a span of their own in their Debug impl, which
            // runs while the filter matches the new span's fields (drawn last: the rest of the plan is unchanged)
            let global = rng.chance(1, 3);
            if global {
                for s in st.iter_mut() {
                    if s["op"] == "fspan" && rng.chance(1, 2) {
                        s["nested"] = json!(true);
                    }
                }
            }
            return json!({"engine": "directive", "prop": g.prop, "mode": g.mode, "cfg": {"dirs": dirs, "threads": 2, "global": global}, "steps": st, "sched": serde_json::to_value(&sched).unwrap()});
        }
        let sched = Sched::op_order(rng.next_u64());
        json!({"engine": "directive", "prop": g.prop, "mode": g.mode, "cfg": {"dirs": dirs, "threads": nthreads}, "steps": steps, "sched": serde_json::to_value(&sched).unwrap()})
    }

    fn classify_known(&self, plan: &Value, res: &RunResult) -> Option<String> {
        if plan["mode"] == "probe:F18" && finding_open("F18") && matches!(res.class.as_str(), "targets-envfilter-differ" | "would-enable-differs") && plan["cfg"]["dirs"].as_array().map_or(false, |a| a.iter().any(is_span_scoped)) {
            return Some("F18 Targets accepts span/field directive syntax as a literal target name".into());
        }
        if plan["mode"] == "probe:F17" && finding_open("F17") && res.detail.contains("[F17-signature]") {
            return Some("F17 a field value recorded while the span is entered does not change the raised level until the span is entered again".into());
        }
        None
    }

    fn execute(&self, plan: &Value) -> RunResult {
        std::panic::set_hook(Box::new(|_| {}));
        let sched = plan_sched(plan);
        let dirs: Vec<Value> = plan["cfg"]["dirs"].as_array().cloned().unwrap_or_default();
        let nthreads = plan["cfg"]["threads"].as_u64().unwrap_or(1).max(1) as usize;
        let steps: Vec<Value> = plan["steps"].as_array().cloned().unwrap_or_default();
        let text: String = dirs.iter().map(render).filter(|s| !s.is_empty()).collect::<Vec<_>>().join(",");
        let text2 = text.clone();
        let dirs2 = dirs.clone();
        let nsteps = steps.len();
        // while F18 is open, must-hold runs compare Targets only on strings without span/field syntax
        let with_targets = plan["mode"] == "probe:F18" || !finding_open("F18") || !dirs.iter().any(is_span_scoped);
        let sync = sched.sync;
        let global = plan["cfg"]["global"].as_bool().unwrap_or(false);
        let body = move || {
            let reps = match build_replicas(&text2, with_targets) {
                Ok(r) => r,
                Err(e) => {
                    violation(if e.contains("display-unparsable") { "display-unparsable" } else { "generated-directive-rejected" }, e);
                    return;
                }
            };
            let reps = std::sync::Arc::new(reps);
            let indexed: Vec<(usize, usize, Value)> = steps.iter().enumerate().map(|(gi, s)| (gi, (s["t"].as_u64().unwrap_or(0) as usize) % nthreads, s.clone())).collect();
            TURN.store(0, Ordering::SeqCst);
            let all_slots: std::sync::Arc<Vec<Mutex<Vec<Option<SlotE>>>>> = std::sync::Arc::new((0..4).map(|_| Mutex::new((0..NSLOTS).map(|_| None).collect())).collect());
            if sync {
                // race variant: the EnvFilter replica alone; every thread owns its slots and spans, so the model's
                // per-thread reading of the history holds under every interleaving; the schedule decides how the
                // filter's shared tables (callsite matchers, span matchers, interest cache) are contended
                let rep = match &reps[1] {
                    Some(r) => r.dispatch.clone(),
                    None => return,
                };
                if global && dispatch::set_global_default(rep.clone()).is_err() {
                    violation("harness", "a process-wide default was already set in this child process");
                    return;
                }
                let race_body = {
                    let all_slots = all_slots.clone();
                    let rep = rep.clone();
                    move |t: usize, mine: Vec<(usize, Value)>| {
                        let _g = if global { None } else { Some(dispatch::set_default(&rep)) };
                        let mut entered = vec![];
                        for (gi, s) in &mine {
                            detsim::op_boundary("op");
                            exec_step(1, *gi, t, s, &all_slots[1], &mut entered, &None);
                        }
                        while let Some((u, id, d)) = entered.pop() {
                            d.exit(&id);
                            ENTERED_ANY.lock().unwrap().retain(|x| *x != (1, u));
                        }
                    }
                };
                let mut tids = vec![];
                for t in 1..nthreads {
                    let mine: Vec<(usize, Value)> = indexed.iter().filter(|x| x.1 == t).map(|x| (x.0, x.2.clone())).collect();
                    let rb = race_body.clone();
                    tids.push(detsim::spawn(&format!("t{t}"), move || rb(t, mine)));
                }
                let mine: Vec<(usize, Value)> = indexed.iter().filter(|x| x.1 == 0).map(|x| (x.0, x.2.clone())).collect();
                race_body(0, mine);
                for id in tids {
                    detsim::join(id);
                }
                let taken: Vec<Option<SlotE>> = all_slots[1].lock().unwrap().drain(..).collect();
                if global {
                    drop(taken);
                } else {
                    dispatch::with_default(&rep, || drop(taken));
                }
                return;
            }
            let run = {
                let reps = reps.clone();
                let all_slots = all_slots.clone();
                move |t: usize, mine: Vec<(usize, Value)>| {
                    for (ri, rep) in reps.iter().enumerate() {
                        let rep = match rep {
                            Some(r) => r,
                            None => continue,
                        };
                        let _g = dispatch::set_default(&rep.dispatch);
                        let mut entered = vec![];
                        for (gi, s) in &mine {
                            let turn = ri * (nsteps + 1) + gi;
                            detsim::block_until("turn", None, || TURN.load(Ordering::SeqCst) == turn);
                            exec_step(ri, *gi, t, s, &all_slots[ri], &mut entered, &rep.targets);
                            TURN.store(turn + 1, Ordering::SeqCst);
                            detsim::progress();
                        }
                        // end of this replica's history on this thread: unwind, then wait for the replica barrier
                        while let Some((u, id, d)) = entered.pop() {
                            d.exit(&id);
                            ENTERED_ANY.lock().unwrap().retain(|x| *x != (ri, u));
                        }
                    }
                }
            };
            // replica boundaries: a pseudo-step `nsteps` per replica advanced by the main thread after all threads passed
            let mut tids = vec![];
            for t in 1..nthreads {
                let mine: Vec<(usize, Value)> = indexed.iter().filter(|x| x.1 == t).map(|x| (x.0, x.2.clone())).collect();
                let run = run.clone();
                tids.push(detsim::spawn(&format!("t{t}"), move || run(t, mine)));
            }
            // the main thread runs its own ops and, per replica, the boundary step
            let mine: Vec<(usize, Value)> = indexed.iter().filter(|x| x.1 == 0).map(|x| (x.0, x.2.clone())).collect();
            {
                let t = 0usize;
                for (ri, rep) in reps.iter().enumerate() {
                    let present = rep.is_some();
                    if let Some(rep) = rep {
                        let _g = dispatch::set_default(&rep.dispatch);
                        let mut entered = vec![];
                        for (gi, s) in &mine {
                            let turn = ri * (nsteps + 1) + gi;
                            detsim::block_until("turn", None, || TURN.load(Ordering::SeqCst) == turn);
                            exec_step(ri, *gi, t, s, &all_slots[ri], &mut entered, &rep.targets);
                            TURN.store(turn + 1, Ordering::SeqCst);
                            detsim::progress();
                        }
                        while let Some((u, id, d)) = entered.pop() {
                            d.exit(&id);
                            ENTERED_ANY.lock().unwrap().retain(|x| *x != (ri, u));
                        }
                    }
                    // boundary: wait until every step of this replica ran, drop its handles, open the next replica
                    let boundary = ri * (nsteps + 1) + nsteps;
                    if present {
                        detsim::block_until("turn", None, || TURN.load(Ordering::SeqCst) == boundary);
                        let mut sl = all_slots[ri].lock().unwrap();
                        let taken: Vec<Option<SlotE>> = sl.drain(..).collect();
                        drop(sl);
                        if let Some(rep) = rep {
                            dispatch::with_default(&rep.dispatch, || drop(taken));
                        }
                    }
                    TURN.store(boundary + 1, Ordering::SeqCst);
                    detsim::progress();
                }
            }
            for id in tids {
                detsim::join(id);
            }
        };
        let finish = move || {
            let hist = std::mem::take(&mut *HIST.lock().unwrap());
            let log = reclayer::take_llog();
            oracle(&dirs2, &text, &hist, &log);
        };
        simulate(&plan.to_string(), &sched, None, body, finish)
    }
}

/// Static part of the model: the most specific caring directive decides.
/// Returns (enabled, a tie-break between >=2 caring directives happened, ambiguous: two equally specific
/// directives with different levels both care -> not judged).
fn static_enabled(dirs: &[Value], level: u8, target: &str, is_event: bool, fieldset: &[&str]) -> (bool, bool, bool) {
    // later equal keys (target + field names) replace earlier ones
    let mut table: Vec<(Option<String>, Vec<String>, u64)> = vec![];
    for d in dirs.iter().filter(|d| !is_dynamic(d)) {
        let key = d["target"].as_str().map(|s| s.to_string());
        let names: Vec<String> = d["fields"].as_array().map_or(vec![], |a| a.iter().filter_map(|f| f[0].as_str().map(|s| s.to_string())).collect());
        if let Some(e) = table.iter_mut().find(|e| e.0 == key && e.1 == names) {
            e.2 = dir_level(d);
        } else {
            table.push((key, names, dir_level(d)));
        }
    }
    // most specific = longest target, then more field constraints
    let mut best: Option<((i64, usize), u64)> = None;
    let mut ambiguous = false;
    let mut candidates = 0;
    for (t, names, l) in &table {
        let target_ok = t.as_ref().map_or(true, |t| target.starts_with(t.as_str()));
        let fields_ok = !is_event || names.iter().all(|n| fieldset.contains(&n.as_str()));
        if target_ok && fields_ok {
            candidates += 1;
            let spec = (t.as_ref().map_or(-1, |t| t.len() as i64), names.len());
            match best {
                Some((b, bl)) if spec == b => {
                    if bl != *l {
                        ambiguous = true;
                    }
                }
                Some((b, _)) if spec < b => {}
                _ => {
                    best = Some((spec, *l));
                    ambiguous = false;
                }
            }
        }
    }
    (best.map_or(false, |b| (level as u64) <= b.1), candidates >= 2, ambiguous)
}

struct MSpan {
    site: usize,
    fsite: Option<usize>,
    x: i64,
    flag: bool,
    who: String,
    /// every value recorded for `y` so far (a value matcher that matched once stays matched)
    y: Vec<i64>,
    exists: bool,
}

fn cares(d: &Value, sp: &MSpan) -> bool {
    let fs = match sp.fsite {
        Some(f) => f,
        None => {
            // pool spans: name "pool_span", fields site/val/late
            if d["span"].is_string() {
                return false;
            }
            if let Some(t) = d["target"].as_str() {
                if !sites::TARGETS[sites::SITES[sp.site].1 as usize].starts_with(t) {
                    return false;
                }
            }
            return d["fields"].as_array().map_or(true, |a| a.iter().all(|f| matches!(f[0].as_str(), Some("site") | Some("val") | Some("late"))));
        }
    };
    let (ti, ni) = fsites::SITES[fs];
    if let Some(t) = d["target"].as_str() {
        if !fsites::TARGETS[ti as usize].starts_with(t) {
            return false;
        }
    }
    if let Some(n) = d["span"].as_str() {
        if n != fsites::NAMES[ni as usize] {
            return false;
        }
    }
    // every field the directive names must exist on the span's callsite
    d["fields"].as_array().map_or(true, |a| a.iter().all(|f| matches!(f[0].as_str(), Some("x") | Some("flag") | Some("y") | Some("val") | Some("who"))))
}
fn values_match(d: &Value, sp: &MSpan) -> bool {
    d["fields"].as_array().map_or(true, |a| {
        a.iter().all(|f| match (f[0].as_str(), &f[1]) {
            (_, Value::Null) => true,
            (Some("x"), v) => v.as_i64() == Some(sp.x),
            (Some("flag"), v) => v.as_bool() == Some(sp.flag),
            // (a pattern matcher: the Debug output of the field must match it entirely)
            (Some("who"), v) => v.as_str() == Some(sp.who.as_str()),
            (Some("y"), v) => v.as_i64().map_or(false, |w| sp.y.contains(&w)),
            (Some("val"), _) | (Some("site"), _) => false,
            _ => false,
        })
    })
}

fn oracle(dirs: &[Value], text: &str, hist: &[H], log: &[LRec]) {
    if has_violation() {
        return;
    }
    let mut dynamics: Vec<&Value> = vec![];
    for d in dirs.iter().filter(|d| is_span_scoped(d)) {
        let key = |x: &Value| (x["target"].clone(), x["span"].clone(), x["fields"].clone());
        if let Some(e) = dynamics.iter_mut().find(|e| key(e) == key(d)) {
            *e = d;
        } else {
            dynamics.push(d);
        }
    }
    let delivered = |rep: usize, kind: &str, uid: u64| log.iter().filter(|r| r.stack == rep && r.kind == kind && r.val == uid).count();
    let present: Vec<usize> = (0..4).filter(|r| hist.iter().any(|h| h.rep == *r)).collect();
    let mut dyn_only = false;
    let mut suppressed_after_exit = false;
    let mut tie_break = false;
    // differential: every replica delivers the same emissions
    for h in hist.iter().filter(|h| h.rep == 1 && h.applied && matches!(h.op.as_str(), "event" | "span" | "fspan")) {
        let kind = if h.op == "event" { "on_event" } else { "on_new_span" };
        let b = delivered(1, kind, h.uid);
        for r in &present {
            let x = delivered(*r, kind, h.uid);
            if x != b {
                let names = ["Targets", "EnvFilter", "EnvFilter re-parsed from Display", "EnvFilter as per-layer filter"];
                let class = if *r == 2 { "display-roundtrip-differs" } else if *r == 0 { "targets-envfilter-differ" } else { "global-vs-per-layer-differ" };
                violation(class, format!("directives {text:?}: op {} ({}) was delivered {} time(s) under {} but {} time(s) under EnvFilter", h.gi, h.op, x, names[*r], b));
                return;
            }
        }
    }
    // would_enable agrees with actual delivery to the Targets replica
    for h in hist.iter().filter(|h| h.rep == 0 && h.applied && h.op == "event" && h.would >= 0) {
        let d = delivered(0, "on_event", h.uid) as i64;
        if d != h.would {
            violation("would-enable-differs", format!("directives {text:?}: Targets::would_enable said {} for site {} but the event was delivered {} times", h.would, h.site, d));
            return;
        }
    }
    // model vs (b)
    let mut spans: HashMap<u64, MSpan> = HashMap::new();
    let mut stacks: HashMap<usize, Vec<u64>> = HashMap::new();
    // raise per entered span is fixed at enter time in the implementation; the property reads it continuously.
    // must-hold histories never record while entered, so both readings agree.
    let mut raise_at_enter: HashMap<(usize, u64), i64> = HashMap::new();
    for h in hist.iter().filter(|h| h.rep == 1 && h.applied) {
        let raise_of = |sp: &MSpan| -> i64 {
            let mut r: i64 = -1;
            for d in &dynamics {
                if cares(d, sp) && values_match(d, sp) {
                    r = r.max(dir_level(d) as i64);
                }
            }
            r
        };
        let scope_raise = |t: usize, spans: &HashMap<u64, MSpan>, stacks: &HashMap<usize, Vec<u64>>| -> i64 { stacks.get(&t).map_or(-1, |v| v.iter().filter_map(|u| spans.get(u)).filter(|s| s.exists).map(raise_of).max().unwrap_or(-1)) };
        let frozen_raise = |t: usize, stacks: &HashMap<usize, Vec<u64>>, raise_at_enter: &HashMap<(usize, u64), i64>| -> i64 { stacks.get(&t).map_or(-1, |v| v.iter().filter_map(|u| raise_at_enter.get(&(t, *u))).copied().max().unwrap_or(-1)) };
        match h.op.as_str() {
            "event" | "span" => {
                let (lvl, tg) = sites::SITES[h.site];
                let (st, tie, amb) = static_enabled(dirs, lvl, sites::TARGETS[tg as usize], h.op == "event", &["site", "val", "late"][..if h.op == "event" { 2 } else { 3 }]);
                let raised = scope_raise(h.t, &spans, &stacks) >= lvl as i64;
                let frozen = frozen_raise(h.t, &stacks, &raise_at_enter) >= lvl as i64;
                let kind = if h.op == "event" { "on_event" } else { "on_new_span" };
                let got = delivered(1, kind, h.uid) == 1;
                let mut want = st || raised;
                let mut judged = !(amb && !raised);
                if h.op == "span" {
                    // a span whose callsite a span-scoped directive cares about is enabled "for the span itself";
                    // when its level exceeds that directive's level the outcome is not judged
                    let me = MSpan { site: h.site, fsite: None, x: 0, flag: false, who: String::new(), y: vec![], exists: true };
                    let caring: Vec<&&Value> = dynamics.iter().filter(|d| cares(d, &me)).collect();
                    if caring.iter().any(|d| values_match(d, &me) && (lvl as u64) <= dir_level(d)) {
                        want = true;
                    } else if !caring.is_empty() && !want {
                        judged = false;
                    }
                }
                if got != want && judged {
                    let f17 = raised != frozen && got == (st || frozen);
                    let class = if got { "enabled-but-no-directive" } else { "directive-not-applied" };
                    violation(class, format!("directives {text:?}: {} at site {} (level {}, target {}) on t{} was {}; static directives say {}, entered matching spans raise the level: {}{}", h.op, h.site, lvl, sites::TARGETS[tg as usize], h.t, if got { "delivered" } else { "suppressed" }, st, raised, if f17 { " [F17-signature]" } else { "" }));
                    return;
                }
                if raised && !st && got {
                    dyn_only = true;
                }
                if !raised && !st && !stacks.get(&h.t).map_or(true, |v| v.is_empty()) == false && dyn_only {
                    suppressed_after_exit = true;
                }
                if tie {
                    tie_break = true;
                }
                if h.op == "span" && got {
                    spans.insert(h.uid, MSpan { site: h.site, fsite: None, x: 0, flag: false, who: String::new(), y: vec![], exists: true });
                }
            }
            "fspan" => {
                let (ti, _) = fsites::SITES[h.fsite];
                let sp = MSpan { site: 0, fsite: Some(h.fsite), x: h.x, flag: h.flag, who: h.who.clone(), y: vec![], exists: true };
                let (st, _, amb) = static_enabled(dirs, 3, fsites::TARGETS[ti as usize], false, &["x", "flag", "y", "val", "who"]);
                let raised = scope_raise(h.t, &spans, &stacks) >= 3;
                let frozen = frozen_raise(h.t, &stacks, &raise_at_enter) >= 3;
                let cared = dynamics.iter().any(|d| cares(d, &sp));
                let matched = dynamics.iter().any(|d| cares(d, &sp) && values_match(d, &sp) && 3 <= dir_level(d));
                let got = delivered(1, "on_new_span", h.uid) == 1;
                // F17: the implementation reads the raise as it was when each span was entered
                let f17 = raised != frozen && got == (st || frozen || matched);
                let sig = if f17 { " [F17-signature]" } else { "" };
                if st || raised || matched {
                    if !got {
                        violation("directive-not-applied", format!("directives {text:?}: span {} (target {}, x={}, flag={}) should be enabled (static {}, scope {}, matching span directive {}) but was not created{sig}", fsites::NAMES[fsites::SITES[h.fsite].1 as usize], fsites::TARGETS[ti as usize], h.x, h.flag, st, raised, matched));
                        return;
                    }
                } else if !cared && got && !amb {
                    violation("enabled-but-no-directive", format!("directives {text:?}: span {} (target {}) was created although no directive enables it{sig}", fsites::NAMES[fsites::SITES[h.fsite].1 as usize], fsites::TARGETS[ti as usize]));
                    return;
                }
                // cared-by-callsite but values do not match: not judged (the property speaks of matching spans)
                if got {
                    spans.insert(h.uid, sp);
                }
            }
            "record_y" => {
                if let Some(sp) = spans.get_mut(&h.uid) {
                    if sp.fsite.is_some() {
                        sp.y.push(h.y);
                    }
                }
            }
            "enter" => {
                if let Some(sp) = spans.get(&h.uid) {
                    raise_at_enter.insert((h.t, h.uid), raise_of(sp));
                    stacks.entry(h.t).or_default().push(h.uid);
                }
            }
            "exit" => {
                if let Some(v) = stacks.get_mut(&h.t) {
                    if let Some(p) = v.iter().rposition(|u| *u == h.uid) {
                        v.remove(p);
                        raise_at_enter.remove(&(h.t, h.uid));
                    }
                }
            }
            _ => {}
        }
    }
    if (dyn_only && suppressed_after_exit) || (dynamics.is_empty() && tie_break) || dyn_only {
        nontrivial();
    }
}
