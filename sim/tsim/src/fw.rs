//! Framework shared by every engine: plans, run results, the per-child recorder, hook installation.
use detsim::{Rng, Strategy, Switch};
use serde::{Deserialize, Serialize};
use serde_json::{json, Value};
use std::collections::BTreeMap;
use std::sync::Mutex;

#[derive(Serialize, Deserialize, Clone, Debug)]
pub struct Sched {
    /// true: every yield point is live ("sync" granularity); false: total order of whole operations
    pub sync: bool,
    pub kind: String, // rtb | random | pct | targeted | replay
    #[serde(default)]
    pub p: u32,
    #[serde(default)]
    pub depth: u32,
    #[serde(default)]
    pub horizon: u64,
    #[serde(default)]
    pub points: Vec<u64>,
    #[serde(default)]
    pub switches: Vec<(u32, u64, u32)>,
    pub seed: u64,
    pub step_cap: u64,
}

impl Sched {
    pub fn op_order(seed: u64) -> Sched {
        Sched { sync: false, kind: "rtb".into(), p: 0, depth: 0, horizon: 0, points: vec![], switches: vec![], seed, step_cap: 200_000 }
    }
    /// swarm-style choice of a schedule strategy for `sync` granularity
    pub fn swarm(rng: &mut Rng, horizon: u64) -> Sched {
        let seed = rng.next_u64();
        if !cfg!(feature = "pl") {
            // std-locks build: no schedule exploration (see Cargo.toml); the plan runs as a total order
            return Sched::op_order(seed);
        }
        let mut s = Sched { sync: true, kind: "rtb".into(), p: 0, depth: 0, horizon, points: vec![], switches: vec![], seed, step_cap: 50_000 };
        match rng.below(10) {
            0 => {}
            1..=3 => {
                s.kind = "random".into();
                s.p = *rng.pick(&[20, 50, 150, 400, 1000]);
            }
            4..=6 => {
                s.kind = "pct".into();
                s.depth = rng.range(1, 3) as u32;
            }
            _ => {
                s.kind = "targeted".into();
                let n = rng.range(1, 3);
                for _ in 0..n {
                    // bias towards early steps, where registration / first-hit races live
                    let r = rng.range(2, 9);
                    let h = (1u64 << r).min(horizon.max(4));
                    s.points.push(rng.below(h));
                }
            }
        }
        s
    }
    pub fn to_config(&self) -> detsim::Config {
        let strategy = match self.kind.as_str() {
            "random" => Strategy::Random { p: self.p },
            "pct" => Strategy::Pct { depth: self.depth, horizon: self.horizon.max(8) },
            "targeted" => Strategy::Targeted { points: self.points.clone() },
            "replay" => Strategy::Replay {
                switches: self.switches.iter().map(|&(from, nth, to)| Switch { from, nth, to }).collect(),
            },
            _ => Strategy::RunToBlock,
        };
        detsim::Config { seed: self.seed, sync_gran: self.sync, strategy, step_cap: self.step_cap }
    }
}

#[derive(Serialize, Deserialize, Clone, Debug, Default)]
pub struct RunResult {
    /// "ok" | "violation" | "known" | "discard"
    pub verdict: String,
    pub class: String,
    pub detail: String,
    pub nontrivial: bool,
    pub plan_digest: u64,
    pub log_digest: u64,
    pub steps: u64,
    pub decisions: u64,
    pub switches: u64,
    pub sched_digest: u64,
    pub clock_ns: u64,
    pub time_jumps: u64,
    pub threads: u64,
    pub faults: BTreeMap<String, u64>,
    pub probes: BTreeMap<String, u64>,
    #[serde(default)]
    pub switch_list: Vec<(u32, u64, u32)>,
    #[serde(default)]
    pub tail: Vec<String>,
    #[serde(default)]
    pub known: Vec<String>,
}

/// Per-child recorder: first violation wins, fault/probe counters, a rolling digest of the event log.
pub struct Recorder {
    pub violation: Option<(String, String)>,
    pub known: Vec<String>,
    pub faults: BTreeMap<String, u64>,
    pub probes: BTreeMap<String, u64>,
    pub log_digest: u64,
    pub nontrivial: bool,
    pub log: Vec<String>,
    pub keep_log: bool,
}

pub static REC: Mutex<Recorder> = Mutex::new(Recorder {
    violation: None,
    known: Vec::new(),
    faults: BTreeMap::new(),
    probes: BTreeMap::new(),
    log_digest: 0xcbf29ce484222325,
    nontrivial: false,
    log: Vec::new(),
    keep_log: false,
});

fn rec() -> std::sync::MutexGuard<'static, Recorder> {
    REC.lock().unwrap_or_else(|p| p.into_inner())
}

/// Text appended to the detail of violations raised from now on (an oracle sets it while it judges operations whose
/// first divergence would carry an open finding's signature; empty otherwise).
pub static VIOLATION_SUFFIX: Mutex<String> = Mutex::new(String::new());
pub fn set_violation_suffix(s: &str) {
    let mut g = VIOLATION_SUFFIX.lock().unwrap();
    if *g != s {
        *g = s.to_string();
    }
}
pub fn violation(class: &str, detail: impl Into<String>) {
    let suffix = VIOLATION_SUFFIX.lock().unwrap().clone();
    let mut r = rec();
    if r.violation.is_none() {
        r.violation = Some((class.to_string(), format!("{}{}", detail.into(), suffix)));
    }
}
pub fn has_violation() -> bool {
    rec().violation.is_some()
}
pub fn known(s: impl Into<String>) {
    let s = s.into();
    let mut r = rec();
    if !r.known.contains(&s) {
        r.known.push(s);
    }
}
pub fn fault(name: &str) {
    *rec().faults.entry(name.to_string()).or_insert(0) += 1;
}
pub fn probe(name: &str) {
    *rec().probes.entry(name.to_string()).or_insert(0) += 1;
}
pub fn probe_n(name: &str, n: u64) {
    *rec().probes.entry(name.to_string()).or_insert(0) += n;
}
pub fn nontrivial() {
    rec().nontrivial = true;
}
/// Append to the event log (digested for the determinism self-test; kept verbatim with --log).
pub fn ev(s: impl AsRef<str>) {
    let s = s.as_ref();
    let mut r = rec();
    let mut h = r.log_digest;
    for b in s.bytes() {
        h ^= b as u64;
        h = h.wrapping_mul(0x100000001b3);
    }
    h ^= 0xff;
    h = h.wrapping_mul(0x100000001b3);
    r.log_digest = h;
    if r.keep_log {
        r.log.push(s.to_string());
    }
}

pub fn digest_str(s: &str) -> u64 {
    let mut h = 0xcbf29ce484222325u64;
    for b in s.bytes() {
        h ^= b as u64;
        h = h.wrapping_mul(0x100000001b3);
    }
    h
}

// ---- hooks into /repo (H0) -------------------------------------------------------------------

use std::sync::atomic::{AtomicBool, AtomicI64, Ordering};
/// Wall-clock seam: when enabled, `tracing_core::__verif::now()` = UNIX_EPOCH + WALL_BASE_S + virtual clock.
pub static WALL_ENABLED: AtomicBool = AtomicBool::new(false);
pub static WALL_BASE_S: AtomicI64 = AtomicI64::new(1_700_000_000);
pub static WALL_BASE_NS: AtomicI64 = AtomicI64::new(0);

fn hook_point(site: &'static str) {
    detsim::yield_point(site);
}
fn hook_block(site: &'static str, test: &mut dyn FnMut() -> bool) {
    detsim::block_until(site, None, || test());
}
pub fn wall_now() -> std::time::SystemTime {
    let base_s = WALL_BASE_S.load(Ordering::SeqCst);
    let base_ns = WALL_BASE_NS.load(Ordering::SeqCst);
    let virt = detsim::now_ns() as i128;
    let total: i128 = base_s as i128 * 1_000_000_000 + base_ns as i128 + virt;
    if total >= 0 {
        std::time::UNIX_EPOCH + std::time::Duration::new((total / 1_000_000_000) as u64, (total % 1_000_000_000) as u32)
    } else {
        let neg = -total;
        std::time::UNIX_EPOCH - std::time::Duration::new((neg / 1_000_000_000) as u64, (neg % 1_000_000_000) as u32)
    }
}
fn hook_now() -> Option<std::time::SystemTime> {
    if WALL_ENABLED.load(Ordering::SeqCst) {
        Some(wall_now())
    } else {
        None
    }
}
static HOOKS: tracing_core::__verif::Hooks =
    tracing_core::__verif::Hooks { point: hook_point, block_until: hook_block, now: hook_now };

pub fn install_hooks() {
    tracing_core::__verif::install(&HOOKS);
}

// ---- child-side run wrapper ------------------------------------------------------------------

static ABORT_CLASSIFIER: Mutex<Option<fn(&str) -> (String, String)>> = Mutex::new(None);
pub static WANT_SWITCHES: AtomicBool = AtomicBool::new(false);
static PLAN_DIGEST: std::sync::atomic::AtomicU64 = std::sync::atomic::AtomicU64::new(0);

fn emit_and_exit(abort: Option<&str>, stats: detsim::Stats) -> ! {
    let res = build_result(abort, &stats);
    print_result(&res);
    use std::io::Write;
    let _ = std::io::stdout().flush();
    // no destructors: other simulated threads are parked forever
    unsafe { libc_exit(0) }
}

extern "C" {
    fn _exit(code: i32) -> !;
}
unsafe fn libc_exit(code: i32) -> ! {
    _exit(code)
}

fn on_abort(why: &str) {
    let stats = detsim::stats_snapshot();
    emit_and_exit(Some(why), stats);
}

pub fn build_result(abort: Option<&str>, stats: &detsim::Stats) -> RunResult {
    let mut r = rec();
    let mut res = RunResult::default();
    res.plan_digest = PLAN_DIGEST.load(Ordering::SeqCst);
    res.steps = stats.steps;
    res.decisions = stats.decisions;
    res.switches = stats.switches;
    res.sched_digest = stats.digest;
    res.clock_ns = stats.clock_ns;
    res.time_jumps = stats.time_jumps;
    res.threads = stats.threads as u64;
    if WANT_SWITCHES.load(Ordering::SeqCst) {
        res.switch_list = stats.switch_list.iter().map(|s| (s.from, s.nth, s.to)).collect();
    }
    res.tail = stats.tail.iter().rev().take(40).rev().map(|(s, t, site)| format!("{s}:t{t}:{site}")).collect();
    if let Some((tid, msg)) = stats.panics.first() {
        if r.violation.is_none() {
            r.violation = Some(("panic".into(), format!("thread {tid} panicked: {msg}")));
        }
    }
    if let Some(why) = abort {
        let f = *ABORT_CLASSIFIER.lock().unwrap();
        let (verdict, class) = match f {
            Some(f) => f(why),
            None => default_abort_class(why),
        };
        if r.violation.is_none() {
            if verdict == "violation" {
                r.violation = Some((class, why.to_string()));
            } else {
                res.verdict = verdict;
                res.class = class;
                res.detail = why.to_string();
            }
        }
    }
    if let Some((c, d)) = r.violation.clone() {
        res.verdict = "violation".into();
        res.class = c;
        res.detail = d;
    } else if res.verdict.is_empty() {
        res.verdict = "ok".into();
    }
    res.known = r.known.clone();
    res.nontrivial = r.nontrivial;
    res.faults = r.faults.clone();
    res.probes = r.probes.clone();
    res.log_digest = r.log_digest;
    if r.keep_log {
        for l in &r.log {
            eprintln!("LOG {l}");
        }
    }
    res
}

/// Engines whose runs are far shorter than the step cap (every yield is an atomic or lock operation of tracing-core)
/// set this: a run that reaches the cap with one thread spinning alone is then a livelock, not a discarded run.
pub static SPIN_IS_VIOLATION: std::sync::atomic::AtomicBool = std::sync::atomic::AtomicBool::new(false);

pub fn default_abort_class(why: &str) -> (String, String) {
    if why.starts_with("deadlock") {
        ("violation".into(), "deadlock".into())
    } else if why.starts_with("step-cap:solo-spin") && SPIN_IS_VIOLATION.load(Ordering::SeqCst) {
        ("violation".into(), "livelock".into())
    } else if why.starts_with("step-cap") {
        ("discard".into(), "step-cap".into())
    } else {
        ("harness".into(), "harness".into())
    }
}

pub fn print_result(res: &RunResult) {
    println!("RESULT {}", serde_json::to_string(res).unwrap());
}

/// Run `body` as simulated thread 0 of a fresh simulation and return the result record.
/// `finish` runs after the simulation ended (all harness threads done) for quiescence oracles.
pub fn simulate(plan_json: &str, sched: &Sched, classifier: Option<fn(&str) -> (String, String)>, body: impl FnOnce(), finish: impl FnOnce()) -> RunResult {
    PLAN_DIGEST.store(digest_str(plan_json), Ordering::SeqCst);
    *ABORT_CLASSIFIER.lock().unwrap() = classifier;
    install_hooks();
    detsim::set_abort_hook(on_abort);
    let ((), stats) = detsim::run(sched.to_config(), body);
    finish();
    let mut res = build_result(None, &stats);
    // in sync granularity a run in which the scheduler never had a choice is trivial
    if sched.sync && stats.decisions == 0 {
        res.nontrivial = false;
    }
    res
}

// ---- engine interface ------------------------------------------------------------------------

pub struct GenCtx {
    pub prop: String,
    pub seed: u64,
    pub tier: String,
    /// "must" (must-hold configuration) or the id of a finding-probe configuration
    pub mode: String,
}

pub trait Engine: Sync {
    fn name(&self) -> &'static str;
    fn props(&self) -> &'static [&'static str];
    /// modes to run for a property: first is "must"; the rest are finding-probe configurations
    fn modes(&self, prop: &str) -> Vec<String> {
        let _ = prop;
        vec!["must".into()]
    }
    /// weight of each mode in the run budget (same order as `modes`)
    fn mode_weight(&self, _prop: &str, mode: &str) -> u32 {
        if mode == "must" {
            8
        } else {
            1
        }
    }
    fn generate(&self, g: &GenCtx) -> Value;
    fn execute(&self, plan: &Value) -> RunResult;
    /// engine-specific simplifications tried by the minimiser besides the generic ones
    fn simplify(&self, _plan: &Value) -> Vec<Value> {
        vec![]
    }
    /// does a violation match a known finding? returns the finding line if so
    fn classify_known(&self, _plan: &Value, _res: &RunResult) -> Option<String> {
        None
    }
    fn components(&self) -> Value {
        json!({})
    }
    fn rule(&self, _prop: &str) -> String {
        String::new()
    }
}

pub fn plan_sched(plan: &Value) -> Sched {
    serde_json::from_value(plan["sched"].clone()).expect("plan.sched")
}
