#!/bin/bash
# regress_subset.sh <repo dir> <seed-id glob> [runs] — like regress_seeds.sh for a subset, against a given copy of the
# repository (for `vp run --with-repo`: the sim's Cargo.toml must already point at that copy). Run from the /verif
# snapshot; prints one line per seed.
REPO=$1; PAT=$2; RUNS=${3:-40000}
for d in $(ls -d seeded/$PAT | sort -V); do
  id=$(basename $d)
  props=$(python3 -c "import json;print(' '.join(json.load(open('$d/meta.json')).get('caught_by',[])))")
  if ! git -C $REPO apply --check $PWD/$d/patch.diff 2>/dev/null; then echo "$id no-longer-applies"; continue; fi
  git -C $REPO apply $PWD/$d/patch.diff
  res=""
  for p in $props; do
    out=$(VERIF_ROOT=/tmp/regress-sub-root ./check $p --runs $RUNS --no-evidence 2>&1); rc=$?
    cls=$(echo "$out" | grep -m1 "class=" | sed 's/.*class=\([a-z0-9-]*\).*/\1/')
    if [ $rc -eq 1 ]; then res="$res $p:caught($cls)"; break; else res="$res $p:MISSED(rc=$rc)"; fi
  done
  git -C $REPO checkout -- . && git -C $REPO clean -fdq
  echo "$id$res"
done
rm -rf /tmp/regress-sub-root
