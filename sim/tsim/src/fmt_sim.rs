//! fmt-sim, part 1: C13 — fmt writes one complete record per event, to exactly the selected writers.
//! Real fmt layer (full / compact / pretty / json x options) over the Registry; writer expressions over
//! recording sinks whose factory and write calls are scheduling points.
use crate::driver::finding_open;
use crate::fw::*;
use crate::sites;
use detsim::Rng;
use serde_json::{json, Value};
use std::io;
use std::sync::atomic::{AtomicBool, AtomicU64, AtomicUsize, Ordering};
use std::sync::{Arc, Mutex};
use tracing_core::dispatch::{self, Dispatch};
use tracing_subscriber::fmt::format::{FmtSpan, Writer};
use tracing_subscriber::fmt::time::FormatTime;
use tracing_subscriber::fmt::writer::{BoxMakeWriter, MakeWriterExt};
use tracing_subscriber::fmt::MakeWriter;
use tracing_subscriber::prelude::*;
use tracing_subscriber::subscribe::Subscribe;
use tracing_subscriber::Registry;

pub struct FmtEngine;

pub const SPAN_BASE: u64 = 7_000_000;

#[derive(Clone, Debug)]
pub enum SinkCall {
    Make { stamp: u64, thread: usize, level: u8, target: String, with_meta: bool },
    Write { stamp: u64, thread: usize, bytes: Vec<u8>, ok: bool, all: bool },
    Flush { stamp: u64 },
}
pub struct SinkState {
    pub calls: Vec<SinkCall>,
    pub nwrite: u64,
}
pub static SINKS: Mutex<Vec<Arc<Mutex<SinkState>>>> = Mutex::new(Vec::new());
pub static SINK_FAIL: Mutex<Vec<(usize, u64)>> = Mutex::new(Vec::new()); // (sink, nth write) fails

#[derive(Clone)]
pub struct Sink {
    pub id: usize,
    pub st: Arc<Mutex<SinkState>>,
    /// > 0: a sink that accepts at most this many bytes per `write` call (pipe/socket style, legal for io::Write)
    pub chunk: usize,
    /// a guard-style factory (like `Mutex<W>`): the writer holds a lock for as long as it lives, and the lock
    /// is poisoned when a panic unwinds through a live writer
    pub guard: Option<Arc<std::sync::Mutex<()>>>,
}
pub struct SinkWriter<'a> {
    id: usize,
    st: Arc<Mutex<SinkState>>,
    chunk: usize,
    pending: Vec<u8>,
    _guard: Option<std::sync::MutexGuard<'a, ()>>,
}
impl Sink {
    pub fn new(id: usize) -> Sink {
        let st = Arc::new(Mutex::new(SinkState { calls: vec![], nwrite: 0 }));
        let mut s = SINKS.lock().unwrap();
        while s.len() <= id {
            s.push(Arc::new(Mutex::new(SinkState { calls: vec![], nwrite: 0 })));
        }
        s[id] = st.clone();
        Sink { id, st, chunk: 0, guard: None }
    }
    fn writer(&self) -> SinkWriter<'_> {
        let g = self.guard.as_ref().map(|m| m.lock().expect("lock poisoned"));
        SinkWriter { id: self.id, st: self.st.clone(), chunk: self.chunk, pending: vec![], _guard: g }
    }
}
impl<'a> MakeWriter<'a> for Sink {
    type Writer = SinkWriter<'a>;
    fn make_writer(&'a self) -> SinkWriter<'a> {
        detsim::yield_point("sink:make_writer");
        self.st.lock().unwrap().calls.push(SinkCall::Make { stamp: detsim::stamp(), thread: detsim::current(), level: 0, target: String::new(), with_meta: false });
        self.writer()
    }
    fn make_writer_for(&'a self, meta: &tracing_core::Metadata<'_>) -> SinkWriter<'a> {
        detsim::yield_point("sink:make_writer_for");
        self.st.lock().unwrap().calls.push(SinkCall::Make { stamp: detsim::stamp(), thread: detsim::current(), level: sites::level_num(meta.level()), target: meta.target().to_string(), with_meta: true });
        self.writer()
    }
}
impl SinkWriter<'_> {
    fn record(&mut self, buf: &[u8], all: bool) -> bool {
        detsim::yield_point("sink:write");
        let mut st = self.st.lock().unwrap();
        st.nwrite += 1;
        let n = st.nwrite;
        let fail = SINK_FAIL.lock().unwrap().contains(&(self.id, n));
        if fail {
            fault("sink_error");
        }
        st.calls.push(SinkCall::Write { stamp: detsim::stamp(), thread: detsim::current(), bytes: buf.to_vec(), ok: !fail, all });
        !fail
    }
}
impl io::Write for SinkWriter<'_> {
    fn write(&mut self, buf: &[u8]) -> io::Result<usize> {
        if self.chunk > 0 {
            // short write: accept a prefix; what this writer accepted in its lifetime is logged as one call when it
            // is dropped (the caller is responsible for offering the rest again)
            detsim::yield_point("sink:write");
            let n = buf.len().min(self.chunk);
            if n < buf.len() {
                fault("sink_short_write");
            }
            self.pending.extend_from_slice(&buf[..n]);
            return Ok(n);
        }
        if self.record(buf, false) {
            Ok(buf.len())
        } else {
            Err(io::Error::from(io::ErrorKind::Other))
        }
    }
    fn write_all(&mut self, mut buf: &[u8]) -> io::Result<()> {
        if self.chunk > 0 {
            // the default provided by std: loop over `write`
            while !buf.is_empty() {
                let n = self.write(buf)?;
                buf = &buf[n..];
            }
            return Ok(());
        }
        if self.record(buf, true) {
            Ok(())
        } else {
            Err(io::Error::from(io::ErrorKind::Other))
        }
    }
    fn flush(&mut self) -> io::Result<()> {
        self.st.lock().unwrap().calls.push(SinkCall::Flush { stamp: detsim::stamp() });
        Ok(())
    }
}
impl Drop for SinkWriter<'_> {
    fn drop(&mut self) {
        if !self.pending.is_empty() {
            let bytes = std::mem::take(&mut self.pending);
            let mut st = self.st.lock().unwrap();
            st.nwrite += 1;
            st.calls.push(SinkCall::Write { stamp: detsim::stamp(), thread: detsim::current(), bytes, ok: true, all: false });
        }
    }
}

#[derive(Clone, Copy)]
pub struct VirtTimer;
/// fault: the n-th reading of the clock fails (the record must still be written, complete, without a time)
pub static TIMER_FAIL: Mutex<Vec<u64>> = Mutex::new(Vec::new());
static TIMER_CALLS: AtomicU64 = AtomicU64::new(0);
impl FormatTime for VirtTimer {
    fn format_time(&self, w: &mut Writer<'_>) -> std::fmt::Result {
        let n = TIMER_CALLS.fetch_add(1, Ordering::SeqCst) + 1;
        if TIMER_FAIL.lock().unwrap().contains(&n) {
            fault("timer_error");
            return Err(std::fmt::Error);
        }
        write!(w, "T{}", detsim::now_ns())
    }
}

fn lvl(n: u64) -> tracing_core::Level {
    sites::level_of(n.clamp(1, 5) as u8)
}

/// Build a writer expression. `or_else`'s left operand must be a level/filter wrapper (an OptionalWriter).
pub fn build_writer(v: &Value) -> BoxMakeWriter {
    match v["k"].as_str().unwrap_or("") {
        "sink" => {
            let mut sk = Sink::new(v["id"].as_u64().unwrap_or(0) as usize);
            sk.chunk = v["short"].as_u64().unwrap_or(0) as usize;
            if v["guard"].as_bool().unwrap_or(false) {
                sk.guard = Some(Arc::new(std::sync::Mutex::new(())));
            }
            BoxMakeWriter::new(sk)
        }
        "max" => BoxMakeWriter::new(build_writer(&v["c"]).with_max_level(lvl(v["l"].as_u64().unwrap_or(5)))),
        "min" => BoxMakeWriter::new(build_writer(&v["c"]).with_min_level(lvl(v["l"].as_u64().unwrap_or(1)))),
        "filter" => {
            let mask = v["mask"].as_u64().unwrap_or(0);
            BoxMakeWriter::new(build_writer(&v["c"]).with_filter(move |meta| site_of(meta).map_or(false, |s| mask & (1 << s) != 0)))
        }
        "and" => BoxMakeWriter::new(build_writer(&v["a"]).and(build_writer(&v["b"]))),
        "or_else" => {
            let a = &v["a"];
            let b = build_writer(&v["b"]);
            match a["k"].as_str().unwrap_or("") {
                "max" => BoxMakeWriter::new(build_writer(&a["c"]).with_max_level(lvl(a["l"].as_u64().unwrap_or(5))).or_else(b)),
                "min" => BoxMakeWriter::new(build_writer(&a["c"]).with_min_level(lvl(a["l"].as_u64().unwrap_or(1))).or_else(b)),
                _ => {
                    let mask = a["mask"].as_u64().unwrap_or(0);
                    BoxMakeWriter::new(build_writer(&a["c"]).with_filter(move |meta| site_of(meta).map_or(false, |s| mask & (1 << s) != 0)).or_else(b))
                }
            }
        }
        _ => BoxMakeWriter::new(Sink::new(0)),
    }
}

fn site_of(meta: &tracing_core::Metadata<'_>) -> Option<usize> {
    let l = sites::level_num(meta.level());
    sites::target_idx(meta.target()).map(|t| ((l - 1) * 4 + t) as usize)
}

/// A9: the set of sinks a writer expression denotes for (level 1..5, target, site).
pub fn denote(v: &Value, site: usize) -> Vec<usize> {
    let level = sites::SITES[site].0 as u64;
    match v["k"].as_str().unwrap_or("") {
        "sink" => vec![v["id"].as_u64().unwrap_or(0) as usize],
        // "max level" bounds verbosity: TRACE (5) is the most verbose
        "max" => {
            if level <= v["l"].as_u64().unwrap_or(5).clamp(1, 5) {
                denote(&v["c"], site)
            } else {
                vec![]
            }
        }
        "min" => {
            if level >= v["l"].as_u64().unwrap_or(1).clamp(1, 5) {
                denote(&v["c"], site)
            } else {
                vec![]
            }
        }
        "filter" => {
            if v["mask"].as_u64().unwrap_or(0) & (1 << site) != 0 {
                denote(&v["c"], site)
            } else {
                vec![]
            }
        }
        "and" => {
            let mut a = denote(&v["a"], site);
            a.extend(denote(&v["b"], site));
            a
        }
        "or_else" => {
            // the left operand is an optional writer: used iff its own condition holds (even if its inner set is empty)
            let a = &v["a"];
            let cond = match a["k"].as_str().unwrap_or("") {
                "max" => level <= a["l"].as_u64().unwrap_or(5).clamp(1, 5),
                "min" => level >= a["l"].as_u64().unwrap_or(1).clamp(1, 5),
                _ => a["mask"].as_u64().unwrap_or(0) & (1 << site) != 0,
            };
            if cond {
                denote(&a["c"], site)
            } else {
                denote(&v["b"], site)
            }
        }
        _ => vec![],
    }
}

fn gen_writer(rng: &mut Rng, depth: u32, next_sink: &mut u64) -> Value {
    let sink = |next_sink: &mut u64| {
        let id = *next_sink;
        *next_sink += 1;
        json!({"k": "sink", "id": id})
    };
    if depth >= 3 || *next_sink >= 5 || rng.chance(1, 3) {
        return sink(next_sink);
    }
    let cond = |rng: &mut Rng, c: Value| match rng.below(3) {
        0 => json!({"k": "max", "l": rng.range(1, 5), "c": c}),
        1 => json!({"k": "min", "l": rng.range(1, 5), "c": c}),
        _ => json!({"k": "filter", "mask": rng.next_u64() & 0xFFFFF, "c": c}),
    };
    match rng.below(5) {
        0 | 1 => {
            let c = gen_writer(rng, depth + 1, next_sink);
            cond(rng, c)
        }
        2 | 3 => json!({"k": "and", "a": gen_writer(rng, depth + 1, next_sink), "b": gen_writer(rng, depth + 1, next_sink)}),
        _ => {
            let c = gen_writer(rng, depth + 1, next_sink);
            let a = cond(rng, c);
            json!({"k": "or_else", "a": a, "b": gen_writer(rng, depth + 1, next_sink)})
        }
    }
}

/// Sink variants: a fifth of the sinks accept only short writes; under a seeded total order (never under seeded
/// schedules, where a held std lock would really block) a quarter of the sinks are guard-style factories.
fn decorate_sinks(v: &mut Value, rng: &mut Rng, sync: bool) {
    match v["k"].as_str().unwrap_or("") {
        "sink" => {
            if rng.chance(1, 5) {
                v["short"] = json!(*rng.pick(&[1u64, 7, 16, 40]));
            }
            if !sync && rng.chance(1, 4) {
                v["guard"] = json!(true);
            }
        }
        "and" | "or_else" => {
            let mut a = v["a"].take();
            let mut b = v["b"].take();
            decorate_sinks(&mut a, rng, sync);
            decorate_sinks(&mut b, rng, sync);
            v["a"] = a;
            v["b"] = b;
        }
        _ => {
            let mut c = v["c"].take();
            decorate_sinks(&mut c, rng, sync);
            v["c"] = c;
        }
    }
}

macro_rules! finish_layer {
    ($b:expr, $o:expr, $w:expr) => {{
        let o: &Value = $o;
        let span_events = {
            let m = span_mask(o["span_events"].as_str().unwrap_or("none"));
            let mut f = FmtSpan::NONE;
            for (bit, flag) in [(1u8, FmtSpan::NEW), (2, FmtSpan::ENTER), (4, FmtSpan::EXIT), (8, FmtSpan::CLOSE)] {
                if m & bit != 0 {
                    f = f | flag;
                }
            }
            f
        };
        let l = $b
            .with_ansi(o["ansi"].as_bool().unwrap_or(false))
            .with_target(o["target"].as_bool().unwrap_or(true))
            .with_level(o["level"].as_bool().unwrap_or(true))
            .with_thread_ids(o["thread_ids"].as_bool().unwrap_or(false))
            .with_thread_names(o["thread_names"].as_bool().unwrap_or(false))
            .with_file(o["file"].as_bool().unwrap_or(false))
            .with_line_number(o["line"].as_bool().unwrap_or(false))
            .with_span_events(span_events)
            .log_internal_errors(false)
            .with_writer($w);
        let b: Box<dyn Subscribe<Registry> + Send + Sync> = Box::new(l);
        b
    }};
}

pub fn build_fmt_layer(o: &Value, w: BoxMakeWriter) -> Box<dyn Subscribe<Registry> + Send + Sync> {
    let timed = o["timer"].as_bool().unwrap_or(false);
    let base = || tracing_subscriber::fmt::subscriber::<Registry>();
    match (o["format"].as_str().unwrap_or("full"), timed) {
        ("full", false) => finish_layer!(base().without_time(), o, w),
        ("full", true) => finish_layer!(base().with_timer(VirtTimer), o, w),
        ("compact", false) => finish_layer!(base().compact().without_time(), o, w),
        ("compact", true) => finish_layer!(base().compact().with_timer(VirtTimer), o, w),
        ("pretty", false) => finish_layer!(base().pretty().without_time(), o, w),
        ("pretty", true) => finish_layer!(base().pretty().with_timer(VirtTimer), o, w),
        ("json", false) => finish_layer!(base().json().flatten_event(o["flatten"].as_bool().unwrap_or(false)).with_current_span(o["current_span"].as_bool().unwrap_or(true)).with_span_list(o["span_list"].as_bool().unwrap_or(true)).without_time(), o, w),
        _ => finish_layer!(base().json().flatten_event(o["flatten"].as_bool().unwrap_or(false)).with_current_span(o["current_span"].as_bool().unwrap_or(true)).with_span_list(o["span_list"].as_bool().unwrap_or(true)).with_timer(VirtTimer), o, w),
    }
}

#[derive(Clone, Debug, Default)]
struct H {
    gi: usize,
    t: usize,
    op: String,
    inv: u64,
    ret: u64,
    uid: u64,
    site: usize,
    applied: bool,
    /// span uids in scope on this thread at the time (root -> leaf)
    scope: Vec<u64>,
    scope_sites: Vec<usize>,
    /// the event named its parent (or root) explicitly
    explicit: bool,
}
static HIST: Mutex<Vec<H>> = Mutex::new(Vec::new());
static TURN: AtomicUsize = AtomicUsize::new(0);

struct PanicOnDebug;
impl std::fmt::Debug for PanicOnDebug {
    fn fmt(&self, _f: &mut std::fmt::Formatter<'_>) -> std::fmt::Result {
        panic!("injected panic in a field's Debug impl")
    }
}

fn thread_body(t: usize, d: Dispatch, mine: Vec<(usize, Value)>, sync: bool) {
    let _g = dispatch::set_default(&d);
    // per-thread span stack: (uid, site, span)
    let mut stack: Vec<(u64, usize, tracing::span::EnteredSpan)> = vec![];
    for (gi, s) in mine {
        if sync {
            detsim::op_boundary("op");
        } else {
            detsim::block_until("turn", None, || TURN.load(Ordering::SeqCst) == gi);
        }
        let op = s["op"].as_str().unwrap_or("").to_string();
        let site = s["site"].as_u64().unwrap_or(0) as usize % sites::N;
        let uid = (gi as u64 + 1) * 10;
        let mut h = H { gi, t, op: op.clone(), site, applied: true, ..Default::default() };
        h.scope = stack.iter().map(|x| x.0).collect();
        h.scope_sites = stack.iter().map(|x| x.1).collect();
        h.inv = detsim::stamp();
        match op.as_str() {
            "event" => {
                h.uid = uid;
                match s["par"].as_str().unwrap_or("ctx") {
                    // an explicit root: no span is in scope, whatever the thread is inside of
                    "root" => {
                        h.scope.clear();
                        h.scope_sites.clear();
                        h.explicit = true;
                        sites::emit_event_root(site, uid);
                    }
                    // an explicit parent somewhere in the thread's stack: the scope is that span's ancestor chain
                    "in" if !stack.is_empty() => {
                        let idx = s["idx"].as_u64().unwrap_or(0) as usize % stack.len();
                        h.scope.truncate(idx + 1);
                        h.scope_sites.truncate(idx + 1);
                        h.explicit = true;
                        sites::emit_event_in(site, uid, &stack[idx].2);
                    }
                    _ => sites::emit_event(site, uid),
                }
            }
            "push" => {
                if stack.len() < 3 {
                    let suid = SPAN_BASE + uid;
                    h.uid = suid;
                    let sp = sites::make_span(site, suid);
                    if sp.is_disabled() {
                        h.applied = false;
                    } else {
                        stack.push((suid, site, sp.entered()));
                    }
                } else {
                    h.applied = false;
                }
            }
            "pop" => match stack.pop() {
                Some((u, st, g)) => {
                    h.uid = u;
                    h.site = st;
                    // scope = the parents of the span being left
                    h.scope = stack.iter().map(|x| x.0).collect();
                    h.scope_sites = stack.iter().map(|x| x.1).collect();
                    drop(g);
                }
                None => h.applied = false,
            },
            "abort" => {
                // an event whose field's Debug impl panics while the record is being formatted
                h.uid = uid;
                fault("panic_in_field_value");
                let r = std::panic::catch_unwind(std::panic::AssertUnwindSafe(|| {
                    tracing::event!(target: "app", tracing::Level::ERROR, site = 0u64, val = uid, bad = ?PanicOnDebug);
                }));
                h.applied = r.is_err();
                h.site = 0;
            }
            "tick" => detsim::advance_ns(s["ns"].as_u64().unwrap_or(1000)),
            _ => h.applied = false,
        }
        h.ret = detsim::stamp();
        ev(format!("op {gi} t{t} {op} site{site} uid={} applied={}", h.uid, h.applied));
        HIST.lock().unwrap().push(h);
        if !sync {
            TURN.store(gi + 1, Ordering::SeqCst);
            detsim::progress();
        }
    }
    // unwind the scope (recorded as pops)
    let mut n = 0;
    while let Some((u, st, g)) = stack.pop() {
        let mut h = H { gi: 1_000_000 + t * 100 + n, t, op: "pop".into(), uid: u, site: st, applied: true, ..Default::default() };
        h.scope = stack.iter().map(|x| x.0).collect();
        h.scope_sites = stack.iter().map(|x| x.1).collect();
        h.inv = detsim::stamp();
        drop(g);
        h.ret = detsim::stamp();
        HIST.lock().unwrap().push(h);
        n += 1;
    }
}

impl Engine for FmtEngine {
    fn name(&self) -> &'static str {
        "fmt-sim"
    }
    fn props(&self) -> &'static [&'static str] {
        &["C13"]
    }
    fn modes(&self, _p: &str) -> Vec<String> {
        let mut m = vec!["must".to_string()];
        if finding_open("F8") {
            m.push("probe:F8".into());
        }
        m
    }
    fn rule(&self, _p: &str) -> String {
        "configuration = formatter (full/compact/pretty/json) x options (target, level, thread id/name, file/line, ansi, virtual-clock timer or none, span events none/new+close/active/full, json flatten/current_span/span_list) x writer expression of depth <=3 over <=5 recording sinks (with_max_level, with_min_level, with_filter, and, or_else), a fifth of the sinks accepting only short writes (1-40 bytes per call) and, under seeded total orders, a quarter being guard-style factories whose lock a panic unwinding through a live writer poisons; 1-8 threads emit <=12 events each inside span nestings; schedules interleave threads at the sinks' make_writer_for/write calls; faults: a field whose Debug panics (caught), a failing write in one Tee branch, short writes, a failing clock reading; non-trivial = >=2 threads' records interleaved at a sink or a combinator routed records of the run to different sink sets, and >=1 record inside a span nesting; distinct = distinct (plan, schedule digest)".into()
    }
    fn components(&self) -> Value {
        json!({"real": ["tracing_subscriber::fmt::Subscriber (on_event/on_new_span/... with thread-local buffer)", "format::{Full, Compact, Pretty, Json}", "writer combinators WithMaxLevel/WithMinLevel/WithFilter/Tee/OrElse/BoxMakeWriter", "Registry"], "stub": ["sinks (recording MakeWriter/Write)", "timer (virtual clock)"]})
    }
    fn generate(&self, g: &GenCtx) -> Value {
        let mut rng = Rng::new(g.seed);
        let format = *rng.pick(&["full", "full", "compact", "pretty", "json", "json"]);
        let opts = json!({
            "format": format, "timer": rng.chance(1, 3), "ansi": format != "json" && rng.chance(1, 4),
            "target": rng.chance(3, 4), "level": rng.chance(4, 5), "thread_ids": rng.chance(1, 4), "thread_names": rng.chance(1, 4),
            "file": rng.chance(1, 4), "line": rng.chance(1, 4),
            "span_events": if rng.chance(1, 3) { format!("m{}", rng.range(1, 15)) } else { rng.pick(&["none", "none", "new_close", "active", "full"]).to_string() },
            "flatten": rng.chance(1, 3), "current_span": rng.chance(3, 4), "span_list": rng.chance(3, 4),
        });
        let mut next_sink = 0;
        let writer = gen_writer(&mut rng, 0, &mut next_sink);
        let sync = rng.chance(1, 2);
        let mut writer = writer;
        decorate_sinks(&mut writer, &mut rng, sync);
        let nthreads = if sync { rng.range(1, 8) } else { rng.range(1, 3) };
        let aborts = g.mode == "probe:F8" || !finding_open("F8");
        let explicit_ok = true;
        let mut steps = vec![];
        let per = rng.range(2, if g.tier == "thorough" { 12 } else { 8 });
        for t in 0..nthreads {
            for _ in 0..per {
                let site = rng.below(20);
                steps.push(match rng.below(100) {
                    0..=54 => match rng.below(10) {
                        0 | 1 if explicit_ok => json!({"t": t, "op": "event", "site": site, "par": "root"}),
                        2 | 3 if explicit_ok => json!({"t": t, "op": "event", "site": site, "par": "in", "idx": rng.below(3)}),
                        _ => json!({"t": t, "op": "event", "site": site}),
                    },
                    55..=69 => json!({"t": t, "op": "push", "site": site}),
                    70..=82 => json!({"t": t, "op": "pop"}),
                    83..=90 => {
                        if aborts {
                            json!({"t": t, "op": "abort"})
                        } else {
                            json!({"t": t, "op": "event", "site": site})
                        }
                    }
                    _ => json!({"t": t, "op": "tick", "ns": rng.range(1, 1_000_000)}),
                });
            }
        }
        // shuffle into a seeded total order (matters for op granularity)
        for i in (1..steps.len()).rev() {
            let j = rng.below(i as u64 + 1) as usize;
            steps.swap(i, j);
        }
        let mut faults = vec![];
        if rng.chance(1, 4) && next_sink > 0 {
            faults.push(json!({"kind": "sink_error", "sink": rng.below(next_sink), "nth": rng.range(1, 4)}));
        }
        if opts["timer"].as_bool().unwrap_or(false) && rng.chance(1, 3) {
            faults.push(json!({"kind": "timer_error", "nth": rng.range(1, 6)}));
        }
        let sched = if sync { Sched::swarm(&mut rng, 400) } else { Sched::op_order(rng.next_u64()) };
        json!({"engine": "fmt", "prop": g.prop, "mode": g.mode, "cfg": {"opts": opts, "writer": writer, "threads": nthreads, "nsinks": next_sink}, "steps": steps, "faults": faults, "sched": serde_json::to_value(&sched).unwrap()})
    }

    fn classify_known(&self, plan: &Value, res: &RunResult) -> Option<String> {
        if plan["mode"] == "probe:F8" && finding_open("F8") && res.detail.contains("[F8-signature]") {
            return Some("F8 the fmt layer's thread-local buffer is not cleared when formatting is aborted by a panic".into());
        }
        None
    }

    fn execute(&self, plan: &Value) -> RunResult {
        let sched = plan_sched(plan);
        let cfg = plan["cfg"].clone();
        let nthreads = cfg["threads"].as_u64().unwrap_or(1).max(1) as usize;
        let steps: Vec<Value> = plan["steps"].as_array().cloned().unwrap_or_default();
        std::panic::set_hook(Box::new(|_| {}));
        // span timings (time.busy / time.idle in close records) read the simulated clock through hook H8
        WALL_ENABLED.store(true, Ordering::SeqCst);
        for f in plan["faults"].as_array().cloned().unwrap_or_default() {
            if f["kind"] == "sink_error" {
                SINK_FAIL.lock().unwrap().push((f["sink"].as_u64().unwrap_or(0) as usize, f["nth"].as_u64().unwrap_or(1)));
            }
            if f["kind"] == "timer_error" {
                TIMER_FAIL.lock().unwrap().push(f["nth"].as_u64().unwrap_or(1));
            }
        }
        let sync = sched.sync;
        let cfg2 = cfg.clone();
        let body = move || {
            let w = build_writer(&cfg2["writer"]);
            let layer = build_fmt_layer(&cfg2["opts"], w);
            let d = Dispatch::new(Registry::default().with(layer));
            let indexed: Vec<(usize, usize, Value)> = steps.iter().enumerate().map(|(gi, s)| (gi, (s["t"].as_u64().unwrap_or(0) as usize) % nthreads, s.clone())).collect();
            TURN.store(0, Ordering::SeqCst);
            let mut tids = vec![];
            for t in 1..nthreads {
                let mine: Vec<(usize, Value)> = indexed.iter().filter(|x| x.1 == t).map(|x| (x.0, x.2.clone())).collect();
                let d = d.clone();
                tids.push(detsim::spawn(&format!("t{t}"), move || thread_body(t, d, mine, sync)));
            }
            let mine: Vec<(usize, Value)> = indexed.iter().filter(|x| x.1 == 0).map(|x| (x.0, x.2.clone())).collect();
            thread_body(0, d.clone(), mine, sync);
            for id in tids {
                detsim::join(id);
            }
        };
        let finish = move || {
            let hist = std::mem::take(&mut *HIST.lock().unwrap());
            oracle(&cfg, &hist);
        };
        simulate(&plan.to_string(), &sched, None, body, finish)
    }
}

pub fn strip_ansi(s: &str) -> String {
    let mut out = String::new();
    let mut it = s.chars().peekable();
    while let Some(c) = it.next() {
        if c == '\u{1b}' {
            if it.peek() == Some(&'[') {
                it.next();
                while let Some(&n) = it.peek() {
                    it.next();
                    if n.is_ascii_alphabetic() {
                        break;
                    }
                }
            }
        } else {
            out.push(c);
        }
    }
    out
}

/// all `val=N` / `val: N` / `"val":N` numbers in a record, in order of appearance
fn val_tokens(s: &str) -> Vec<u64> {
    let mut out = vec![];
    for pat in ["val=", "val: ", "\"val\":"] {
        let mut from = 0;
        while let Some(p) = s[from..].find(pat) {
            let start = from + p + pat.len();
            let digits: String = s[start..].chars().take_while(|c| c.is_ascii_digit()).collect();
            if !digits.is_empty() {
                // make sure it is the `val` key, not a suffix of another key
                let before = s[..from + p].chars().last();
                if before.map_or(true, |c| !c.is_alphanumeric() && c != '_') || pat.starts_with('"') {
                    out.push((from + p, digits.parse::<u64>().unwrap_or(0)));
                }
            }
            from = start;
        }
    }
    out.sort();
    out.into_iter().map(|x| x.1).collect()
}

const LEVEL_NAMES: [&str; 6] = ["", "ERROR", "WARN", "INFO", "DEBUG", "TRACE"];

/// Lifecycle points as a mask (1 NEW, 2 ENTER, 4 EXIT, 8 CLOSE): the presets by name, any subset as "m<mask>".
pub fn span_mask(s: &str) -> u8 {
    match s {
        "new_close" => 1 | 8,
        "active" => 2 | 4,
        "full" => 15,
        _ => s.strip_prefix('m').and_then(|n| n.parse::<u8>().ok()).unwrap_or(0) & 15,
    }
}

fn oracle(cfg: &Value, hist: &[H]) {
    let opts = &cfg["opts"];
    let format = opts["format"].as_str().unwrap_or("full");
    let writer = &cfg["writer"];
    let nsinks = cfg["nsinks"].as_u64().unwrap_or(1) as usize;
    let span_events = span_mask(opts["span_events"].as_str().unwrap_or("none"));
    let sinks: Vec<Vec<SinkCall>> = {
        let s = SINKS.lock().unwrap();
        (0..nsinks).map(|i| s.get(i).map(|x| x.lock().unwrap().calls.clone()).unwrap_or_default()).collect()
    };
    let mut hist: Vec<H> = hist.to_vec();
    hist.sort_by_key(|h| h.inv);
    // expected records: (thread, window, site for routing, event uid or 0, lifecycle message, scope root->leaf)
    struct Exp {
        t: usize,
        inv: u64,
        ret: u64,
        site: usize,
        uid: u64,
        msg: &'static str,
        scope: Vec<u64>,
        gi: usize,
    }
    let mut exps: Vec<Exp> = vec![];
    let mut aborted_on: std::collections::HashMap<usize, u64> = Default::default(); // thread -> stamp of last abort
    for h in hist.iter().filter(|h| h.applied) {
        match h.op.as_str() {
            "event" => exps.push(Exp { t: h.t, inv: h.inv, ret: h.ret, site: h.site, uid: h.uid, msg: "", scope: h.scope.clone(), gi: h.gi }),
            "push" => {
                let mut sc = h.scope.clone();
                sc.push(h.uid);
                if span_events & 1 != 0 {
                    // `new` is emitted before the span is entered: its scope is the parents plus the span itself
                    exps.push(Exp { t: h.t, inv: h.inv, ret: h.ret, site: h.site, uid: 0, msg: "new", scope: sc.clone(), gi: h.gi });
                }
                if span_events & 2 != 0 {
                    exps.push(Exp { t: h.t, inv: h.inv, ret: h.ret, site: h.site, uid: 0, msg: "enter", scope: sc.clone(), gi: h.gi });
                }
            }
            "pop" => {
                let mut sc = h.scope.clone();
                sc.push(h.uid);
                if span_events & 4 != 0 {
                    exps.push(Exp { t: h.t, inv: h.inv, ret: h.ret, site: h.site, uid: 0, msg: "exit", scope: sc.clone(), gi: h.gi });
                }
                if span_events & 8 != 0 {
                    exps.push(Exp { t: h.t, inv: h.inv, ret: h.ret, site: h.site, uid: 0, msg: "close", scope: sc.clone(), gi: h.gi });
                }
            }
            "abort" => {
                aborted_on.insert(h.t, h.ret);
            }
            _ => {}
        }
    }
    let first_abort: std::collections::HashMap<usize, u64> = {
        let mut m: std::collections::HashMap<usize, u64> = Default::default();
        for h in hist.iter().filter(|h| h.op == "abort" && h.applied) {
            m.entry(h.t).or_insert(h.ret);
        }
        m
    };
    // group each sink's calls per (thread, window)
    let mut routed_sets: std::collections::HashSet<Vec<usize>> = Default::default();
    let mut interleaved = false;
    let mut nested = false;
    for s in &sinks {
        let threads: Vec<usize> = s.iter().filter_map(|c| if let SinkCall::Write { thread, .. } = c { Some(*thread) } else { None }).collect();
        if threads.windows(2).any(|w| w[0] != w[1]) {
            interleaved = true;
        }
    }
    // every write call on every sink must be attributable to exactly one expected record
    let mut consumed: Vec<Vec<bool>> = sinks.iter().map(|s| vec![false; s.len()]).collect();
    // lifecycle records of one op share a window: match them in order
    let mut exp_idx_by_window: std::collections::HashMap<(usize, u64), usize> = Default::default();
    for e in &exps {
        let want = {
            let mut d = denote(writer, e.site);
            d.sort();
            d.dedup();
            d
        };
        routed_sets.insert(want.clone());
        if !e.scope.is_empty() && e.uid != 0 {
            nested = true;
        }
        let after_abort = first_abort.get(&e.t).map_or(false, |a| *a < e.inv);
        let k = exp_idx_by_window.entry((e.t, e.inv)).or_insert(0);
        let nth_in_window = *k;
        *k += 1;
        for (si, calls) in sinks.iter().enumerate() {
            // this record's writes on this sink: the nth write by this thread inside the window
            let idxs: Vec<usize> = calls.iter().enumerate().filter(|(_, c)| matches!(c, SinkCall::Write { thread, stamp, .. } if *thread == e.t && *stamp > e.inv && *stamp < e.ret)).map(|(i, _)| i).collect();
            let makes = calls.iter().filter(|c| matches!(c, SinkCall::Make { thread, stamp, .. } if *thread == e.t && *stamp > e.inv && *stamp < e.ret)).count();
            let expected_here = want.contains(&si);
            let multiplicity = want.iter().filter(|x| **x == si).count().max(1);
            let _ = multiplicity;
            if !expected_here {
                if nth_in_window == 0 && !idxs.is_empty() {
                    let tag = if after_abort { " [F8-signature]" } else { "" };
                    violation("wrong-sinks", format!("op {} ({} at site {}): sink {} received a record but the writer expression denotes {:?}{tag}", e.gi, if e.uid != 0 { "event" } else { e.msg }, e.site, si, want));
                    return;
                }
                continue;
            }
            let idx = match idxs.get(nth_in_window) {
                Some(i) => *i,
                None => {
                    // a failing sibling in a Tee must not suppress this branch; a failing write on this sink itself is the fault
                    violation("wrong-sinks", format!("op {} ({} at site {}): sink {} should receive the record (expression denotes {:?}) but got {} write(s) in this operation", e.gi, if e.uid != 0 { "event" } else { e.msg }, e.site, si, want, idxs.len()));
                    return;
                }
            };
            consumed[si][idx] = true;
            if makes == 0 {
                violation("factory-called-not-once", format!("op {}: sink {} was written to without its factory being asked in this operation", e.gi, si));
                return;
            }
            if let Some(SinkCall::Make { level, target, with_meta, .. }) = calls.iter().find(|c| matches!(c, SinkCall::Make { thread, stamp, .. } if *thread == e.t && *stamp > e.inv && *stamp < e.ret)) {
                let (l, tg) = sites::SITES[e.site];
                if *with_meta && (*level != l || target != sites::TARGETS[tg as usize]) {
                    violation("factory-wrong-metadata", format!("op {}: sink {} factory was asked with level {} target {:?}, the event has level {} target {:?}", e.gi, si, level, target, l, sites::TARGETS[tg as usize]));
                    return;
                }
            }
            let (bytes, all) = match &calls[idx] {
                SinkCall::Write { bytes, all, .. } => (bytes.clone(), *all),
                _ => unreachable!(),
            };
            let _ = all;
            let text = String::from_utf8_lossy(&bytes).to_string();
            let tag = if after_abort { " [F8-signature]" } else { "" };
            if !text.ends_with('\n') {
                violation("no-trailing-newline", format!("op {}: record written to sink {} does not end in a newline: {:?}{tag}", e.gi, si, text));
                return;
            }
            let clean = strip_ansi(&text);
            let body = clean.trim_end_matches('\n');
            if format != "pretty" && body.contains('\n') {
                violation("extra-newline", format!("op {}: the {} format must produce exactly one line per record, got {:?}{tag}", e.gi, format, clean));
                return;
            }
            // tokens
            let vals = val_tokens(&clean);
            let ev_vals: Vec<u64> = vals.iter().copied().filter(|v| *v < SPAN_BASE).collect();
            let sp_vals: Vec<u64> = vals.iter().copied().filter(|v| *v >= SPAN_BASE).collect();
            if e.uid != 0 {
                if ev_vals != vec![e.uid] {
                    let class = if ev_vals.contains(&e.uid) { "contaminated-record" } else { "missing-field" };
                    violation(class, format!("op {}: the record for event val={} carries event values {:?}: {:?}{tag}", e.gi, e.uid, ev_vals, clean));
                    return;
                }
            } else if !ev_vals.is_empty() {
                violation("contaminated-record", format!("op {}: the {:?} lifecycle record carries event values {:?}: {:?}{tag}", e.gi, e.msg, ev_vals, clean));
                return;
            } else if !clean.contains(e.msg) {
                violation("missing-field", format!("op {}: lifecycle record {:?} expected, got {:?}{tag}", e.gi, e.msg, clean));
                return;
            }
            // level
            if opts["level"].as_bool().unwrap_or(true) && format != "compact" {
                let name = LEVEL_NAMES[sites::SITES[e.site].0 as usize];
                if !clean.contains(name) {
                    violation("missing-level", format!("op {}: level {} not found in {:?}", e.gi, name, clean));
                    return;
                }
            }
            // spans in scope with their fields, in nesting order (json without span list/current span prints none)
            let mut want_scope: Vec<u64> = e.scope.clone();
            if format == "pretty" {
                want_scope.reverse();
            }
            let json_mode = format == "json";
            if json_mode {
                let list = opts["span_list"].as_bool().unwrap_or(true);
                let cur = opts["current_span"].as_bool().unwrap_or(true);
                let mut w: Vec<u64> = vec![];
                if cur {
                    if let Some(l) = e.scope.last() {
                        w.push(*l);
                    }
                }
                if list {
                    w.extend(e.scope.iter().copied());
                }
                want_scope = w;
            }
            // JSON builds the `spans` list of a lifecycle record from the thread's current scope, not from the
            // record's explicit parent (documented narrowing: explicit-parent events are not judged there)
            // (before the repair of F26 the JSON `spans` list of a lifecycle record came from the thread's current
            // scope instead of the span's own chain and was not judged; it is now)
            let skip_scope = false;
            if !skip_scope && sp_vals != want_scope {
                let class = if sp_vals.iter().all(|v| e.scope.contains(v)) && sp_vals.len() == want_scope.len() { "span-order" } else { "missing-span" };
                violation(class, format!("op {}: spans in the record {:?} but the scope is {:?} (format {}): {:?}{tag}", e.gi, sp_vals, want_scope, format, clean));
                return;
            }
            if json_mode {
                if let Err(err) = serde_json::from_str::<Value>(body) {
                    violation("invalid-json", format!("op {}: {:?}: {}", e.gi, body, err));
                    return;
                }
            }
        }
    }
    // no write that no expected record accounts for (torn halves, duplicates, records of aborted events)
    for (si, calls) in sinks.iter().enumerate() {
        for (i, c) in calls.iter().enumerate() {
            if let SinkCall::Write { bytes, thread, stamp, .. } = c {
                if !consumed[si][i] {
                    // a record produced inside an `abort` op (formatting completed before the panic?) is not expected either
                    let in_abort = hist.iter().any(|h| h.op == "abort" && h.t == *thread && h.inv < *stamp && *stamp < h.ret);
                    let after_abort = first_abort.get(thread).map_or(false, |a| *a < *stamp);
                    let tag = if after_abort || in_abort { " [F8-signature]" } else { "" };
                    violation("record-split", format!("sink {} received a write that is not one whole expected record (thread {}): {:?}{tag}", si, thread, String::from_utf8_lossy(bytes)));
                    return;
                }
            }
        }
    }
    if (interleaved || routed_sets.len() >= 2) && nested {
        nontrivial();
    }
    let _ = (AtomicBool::new(false), AtomicU64::new(0), aborted_on);
}
