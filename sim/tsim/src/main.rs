mod appender;
mod core_sim;
mod corpus;
mod instr_sim;
mod directive_sim;
mod fmt_sim;
mod fsites;
mod jsites;
mod json_sim;
mod log_sim;
mod driver;
mod fw;
mod fwrap;
mod rec;
mod reclayer;
mod registry_sim;
mod reload_sim;
mod rolling_sim;
mod sites;
mod span_sim;
mod stack;
mod stack_sim;
mod time_sim;
mod wrap_sim;

use fw::{Engine, GenCtx};
use serde_json::Value;
use std::io::Read;

static ENGINES: &[&(dyn Engine)] = &[&appender::AppenderEngine, &core_sim::CoreEngine, &registry_sim::RegistryEngine, &span_sim::SpanEngine, &stack_sim::StackEngine, &wrap_sim::WrapEngine, &reload_sim::ReloadEngine, &directive_sim::DirectiveEngine, &fmt_sim::FmtEngine, &time_sim::TimeEngine, &rolling_sim::RollingEngine, &json_sim::JsonEngine, &log_sim::LogEngine, &instr_sim::InstrEngine];

fn engine_for_prop(prop: &str) -> Option<&'static dyn Engine> {
    ENGINES.iter().copied().find(|e| e.props().contains(&prop))
}
fn engine_by_name(name: &str) -> Option<&'static dyn Engine> {
    ENGINES.iter().copied().find(|e| e.name().starts_with(name))
}

/// (quick runs, thorough runs) per property — calibrated so quick is ~30-60 s on 16 cores
fn budget(prop: &str) -> (u64, u64) {
    match prop {
        "C15" => (100_000, 2_000_000),
        "C01" => (150_000, 3_000_000),
        "C02" => (150_000, 3_000_000),
        "C04" => (150_000, 3_000_000),
        "C03" => (120_000, 2_500_000),
        "C05" => (120_000, 2_500_000),
        "C07" => (100_000, 2_000_000),
        "C09" => (120_000, 2_500_000),
        "C11" => (80_000, 1_500_000),
        "C12" => (100_000, 2_000_000),
        "C13" => (80_000, 1_500_000),
        "C14" => (100_000, 2_000_000),
        "C20" => (30_000, 500_000),
        "C16" => (30_000, 600_000),
        "C18" => (120_000, 2_500_000),
        "C17" => (120_000, 2_000_000),
        "C06" => (120_000, 2_500_000),
        _ => (40_000, 1_000_000),
    }
}

fn arg_val(args: &[String], name: &str) -> Option<String> {
    args.iter().position(|a| a == name).and_then(|i| args.get(i + 1).cloned())
}

fn main() {
    let args: Vec<String> = std::env::args().collect();
    let cmd = args.get(1).map(|s| s.as_str()).unwrap_or("");
    match cmd {
        "child" => {
            let keep_log = args.iter().any(|a| a == "--log");
            fw::REC.lock().unwrap().keep_log = keep_log;
            let mut s = String::new();
            std::io::stdin().read_to_string(&mut s).expect("stdin");
            let plan: Value = serde_json::from_str(&s).expect("plan json");
            let name = plan["engine"].as_str().unwrap_or("");
            if plan["want_switches"].as_bool().unwrap_or(false) {
                fw::WANT_SWITCHES.store(true, std::sync::atomic::Ordering::SeqCst);
            }
            let eng = engine_by_name(name).unwrap_or_else(|| {
                eprintln!("unknown engine {name}");
                std::process::exit(2)
            });
            let res = eng.execute(&plan);
            fw::print_result(&res);
            use std::io::Write;
            let _ = std::io::stdout().flush();
            // skip destructors of process-global state: foreign threads may still be parked
            std::process::exit(0);
        }
        "check" => {
            let prop = args.get(2).cloned().unwrap_or_default();
            let eng = match engine_for_prop(&prop) {
                Some(e) => e,
                None => {
                    eprintln!("no engine claims property {prop}");
                    std::process::exit(2);
                }
            };
            let tier = arg_val(&args, "--tier").or_else(|| std::env::var("VERIF_TIER").ok()).unwrap_or_else(|| "quick".into());
            let seed: u64 = arg_val(&args, "--seed").or_else(|| std::env::var("VERIF_SEED").ok()).and_then(|s| s.parse().ok()).unwrap_or(20260927);
            let (q, t) = budget(&prop);
            let runs: u64 = arg_val(&args, "--runs").or_else(|| std::env::var("VERIF_RUNS").ok()).and_then(|s| s.parse().ok()).unwrap_or(if tier == "thorough" { t } else { q });
            let runs = runs / std::env::var("VERIF_RUNS_DIV").ok().and_then(|s| s.parse::<u64>().ok()).unwrap_or(1).max(1);
            let max_secs: u64 = arg_val(&args, "--secs").or_else(|| std::env::var("VERIF_SECS").ok()).and_then(|s| s.parse().ok()).unwrap_or(if tier == "thorough" { 1500 } else { 150 });
            let jobs: usize = arg_val(&args, "--jobs").or_else(|| std::env::var("VERIF_JOBS").ok()).and_then(|s| s.parse().ok()).unwrap_or_else(|| std::thread::available_parallelism().map(|n| n.get()).unwrap_or(8));
            let o = driver::Opts { prop, tier, seed, runs, max_secs, jobs, write_evidence: !args.iter().any(|a| a == "--no-evidence") };
            std::process::exit(driver::run_check(eng, &o));
        }
        "replay" => {
            let path = args.get(2).cloned().unwrap_or_default();
            let s = std::fs::read_to_string(&path).unwrap_or_default();
            let doc: Value = serde_json::from_str(&s).unwrap_or(Value::Null);
            let name = doc["plan"]["engine"].as_str().unwrap_or("");
            let eng = match engine_by_name(name) {
                Some(e) => e,
                None => {
                    eprintln!("replay file names unknown engine {name:?}");
                    std::process::exit(2);
                }
            };
            std::process::exit(driver::replay(eng, &path, args.iter().any(|a| a == "--log")));
        }
        "selftest" => {
            let prop = args.get(2).cloned().unwrap_or_default();
            let eng = engine_for_prop(&prop).expect("engine");
            let n: u64 = arg_val(&args, "--n").and_then(|s| s.parse().ok()).unwrap_or(2000);
            let jobs: usize = arg_val(&args, "--jobs").and_then(|s| s.parse().ok()).unwrap_or(16);
            let seed: u64 = arg_val(&args, "--seed").and_then(|s| s.parse().ok()).unwrap_or(777);
            std::process::exit(driver::selftest_determinism(eng, &prop, n, seed, jobs));
        }
        "gen" => {
            let prop = args.get(2).cloned().unwrap_or_default();
            let seed: u64 = args.get(3).and_then(|s| s.parse().ok()).unwrap_or(1);
            let mode = args.get(4).cloned().unwrap_or_else(|| "must".into());
            let eng = engine_for_prop(&prop).expect("engine");
            let g = GenCtx { prop, seed, tier: "quick".into(), mode };
            println!("{}", serde_json::to_string_pretty(&eng.generate(&g)).unwrap());
        }
        _ => {
            eprintln!("usage: tsim check <PROP> [--tier quick|thorough] [--seed N] [--runs N] | replay <file> [--log] | selftest <PROP> [--n N] | gen <PROP> <seed> [mode] | child");
            std::process::exit(2);
        }
    }
}
