//! Shared by stack-sim engines: run-time assembly of layer trees from a plan (type-erased), filter
//! expressions with an independent evaluator (A5), and the flattening of a tree into leaves + paths.
use crate::reclayer::RecLayer;
use crate::sites;
use serde_json::{json, Value};
use std::sync::Arc;
use tracing_core::{Collect, LevelFilter, Metadata};
use tracing_subscriber::filter::{self, FilterExt, Targets};
use tracing_subscriber::prelude::*;
use tracing_subscriber::registry::LookupSpan;
use tracing_subscriber::subscribe::{Filter, Subscribe};
use tracing_subscriber::{EnvFilter, Registry};

pub type BoxS<C> = Box<dyn Subscribe<C> + Send + Sync + 'static>;
pub type BoxF<C> = Box<dyn Filter<C> + Send + Sync + 'static>;

pub fn lf(n: u64) -> LevelFilter {
    match n {
        0 => LevelFilter::OFF,
        1 => LevelFilter::ERROR,
        2 => LevelFilter::WARN,
        3 => LevelFilter::INFO,
        4 => LevelFilter::DEBUG,
        _ => LevelFilter::TRACE,
    }
}
pub fn lname(n: u64) -> &'static str {
    ["off", "error", "warn", "info", "debug", "trace"][n.min(5) as usize]
}

fn targets_from(v: &Value) -> Targets {
    let mut t = Targets::new();
    for e in v["t"].as_array().cloned().unwrap_or_default() {
        t = t.with_target(e[0].as_str().unwrap_or("").to_string(), lf(e[1].as_u64().unwrap_or(0)));
    }
    if let Some(d) = v["default"].as_u64() {
        t = t.with_default(lf(d));
    }
    t
}
pub fn env_string(v: &Value) -> String {
    let mut parts = vec![];
    if let Some(d) = v["default"].as_u64() {
        parts.push(lname(d).to_string());
    }
    for e in v["t"].as_array().cloned().unwrap_or_default() {
        parts.push(format!("{}={}", e[0].as_str().unwrap_or(""), lname(e[1].as_u64().unwrap_or(0))));
    }
    parts.join(",")
}

fn site_of_meta(meta: &Metadata<'_>) -> Option<usize> {
    let l = sites::level_num(meta.level());
    sites::target_idx(meta.target()).map(|t| ((l - 1) * 4 + t) as usize)
}

/// Build a per-layer filter from its AST.
pub fn build_filter<C>(v: &Value) -> BoxF<C>
where
    C: Collect + for<'a> LookupSpan<'a> + Send + Sync + 'static,
{
    match v["k"].as_str().unwrap_or("") {
        "level" => Box::new(lf(v["thr"].as_u64().unwrap_or(5))),
        "targets" => Box::new(targets_from(v)),
        "env" => Box::new(EnvFilter::new(env_string(v))),
        "fn" => {
            let mask = v["mask"].as_u64().unwrap_or(0);
            Box::new(filter::filter_fn(move |meta| site_of_meta(meta).map_or(false, |s| mask & (1 << s) != 0)))
        }
        "dyn" => {
            let mode = v["mode"].as_str().unwrap_or("has_cur").to_string();
            Box::new(filter::dynamic_filter_fn(move |_meta: &Metadata<'_>, cx: &tracing_subscriber::subscribe::Context<'_, C>| {
                let cur = cx.lookup_current();
                match mode.as_str() {
                    "has_cur" => cur.is_some(),
                    "no_cur" => cur.is_none(),
                    _ => cur.map_or(false, |s| sites::level_num(s.metadata().level()) <= 3),
                }
            }))
        }
        "and" => Box::new(build_filter::<C>(&v["a"]).and(build_filter::<C>(&v["b"]))),
        "or" => Box::new(build_filter::<C>(&v["a"]).or(build_filter::<C>(&v["b"]))),
        "not" => Box::new(build_filter::<C>(&v["a"]).not()),
        _ => Box::new(LevelFilter::TRACE),
    }
}

/// Build a global filter layer (a filter used as a plain `Subscribe`).
pub fn build_global<C>(v: &Value) -> BoxS<C>
where
    C: Collect + for<'a> LookupSpan<'a> + Send + Sync + 'static,
{
    match v["k"].as_str().unwrap_or("") {
        "level" => Box::new(lf(v["thr"].as_u64().unwrap_or(5))),
        "targets" => Box::new(targets_from(v)),
        "env" => Box::new(EnvFilter::new(env_string(v))),
        "fn" => {
            let mask = v["mask"].as_u64().unwrap_or(0);
            Box::new(filter::filter_fn(move |meta| site_of_meta(meta).map_or(false, |s| mask & (1 << s) != 0)))
        }
        _ => {
            let mode = v["mode"].as_str().unwrap_or("has_cur").to_string();
            Box::new(filter::dynamic_filter_fn(move |_meta: &Metadata<'_>, cx: &tracing_subscriber::subscribe::Context<'_, C>| {
                let cur = cx.lookup_current();
                match mode.as_str() {
                    "has_cur" => cur.is_some(),
                    "no_cur" => cur.is_none(),
                    _ => cur.map_or(false, |s| sites::level_num(s.metadata().level()) <= 3),
                }
            }))
        }
    }
}

thread_local! {
    /// how many times a per-layer filter's `enabled` ran on this thread (an `enabled` pass over the stack happened)
    pub static FILTER_EVALS: std::cell::Cell<u64> = std::cell::Cell::new(0);
}

/// A transparent per-layer filter wrapper that counts `enabled` evaluations and forwards everything.
pub struct CountEvals<C>(pub BoxF<C>);
impl<C> Filter<C> for CountEvals<C> {
    fn enabled(&self, meta: &Metadata<'_>, cx: &tracing_subscriber::subscribe::Context<'_, C>) -> bool {
        FILTER_EVALS.with(|e| e.set(e.get() + 1));
        self.0.enabled(meta, cx)
    }
    fn callsite_enabled(&self, meta: &'static Metadata<'static>) -> tracing_core::Interest {
        self.0.callsite_enabled(meta)
    }
    fn max_level_hint(&self) -> Option<LevelFilter> {
        self.0.max_level_hint()
    }
    fn event_enabled(&self, event: &tracing_core::Event<'_>, cx: &tracing_subscriber::subscribe::Context<'_, C>) -> bool {
        self.0.event_enabled(event, cx)
    }
    fn on_new_span(&self, attrs: &tracing_core::span::Attributes<'_>, id: &tracing_core::span::Id, ctx: tracing_subscriber::subscribe::Context<'_, C>) {
        self.0.on_new_span(attrs, id, ctx)
    }
    fn on_record(&self, id: &tracing_core::span::Id, values: &tracing_core::span::Record<'_>, ctx: tracing_subscriber::subscribe::Context<'_, C>) {
        self.0.on_record(id, values, ctx)
    }
    fn on_enter(&self, id: &tracing_core::span::Id, ctx: tracing_subscriber::subscribe::Context<'_, C>) {
        self.0.on_enter(id, ctx)
    }
    fn on_exit(&self, id: &tracing_core::span::Id, ctx: tracing_subscriber::subscribe::Context<'_, C>) {
        self.0.on_exit(id, ctx)
    }
    fn on_close(&self, id: tracing_core::span::Id, ctx: tracing_subscriber::subscribe::Context<'_, C>) {
        self.0.on_close(id, ctx)
    }
}

/// A plain (unfiltered, non-recording) layer that vetoes, through `event_enabled`, every event whose `val` field ends
/// in 999 - whatever the per-layer filters below or above it decided.
pub struct VetoVal;
struct ValOnly(u64);
impl tracing_core::field::Visit for ValOnly {
    fn record_u64(&mut self, f: &tracing_core::field::Field, v: u64) {
        if f.name() == "val" {
            self.0 = v;
        }
    }
    fn record_debug(&mut self, _f: &tracing_core::field::Field, _v: &dyn std::fmt::Debug) {}
}
impl<C: Collect> Subscribe<C> for VetoVal {
    fn event_enabled(&self, event: &tracing_core::Event<'_>, _cx: tracing_subscriber::subscribe::Context<'_, C>) -> bool {
        let mut v = ValOnly(0);
        event.record(&mut v);
        v.0 % 1000 != 999
    }
}

/// Registry of the recording leaves created while building (so that engines can reach their config).
pub struct Built<C> {
    pub layer: BoxS<C>,
}

pub fn build_tree<C>(stack: usize, v: &Value, leaves: &mut Vec<RecLayer>) -> BoxS<C>
where
    C: Collect + for<'a> LookupSpan<'a> + Send + Sync + 'static,
{
    match v["k"].as_str().unwrap_or("") {
        "leaf" => {
            let l = RecLayer::new(stack, v["id"].as_u64().unwrap_or(0) as usize);
            l.cfg.emit_in_register.store(v["emit"].as_bool().unwrap_or(false), std::sync::atomic::Ordering::SeqCst);
            leaves.push(l.clone());
            Box::new(l)
        }
        "global" => build_global::<C>(&v["f"]),
        "filtered" => {
            let c = build_tree::<C>(stack, &v["c"], leaves);
            Box::new(c.with_filter(CountEvals(build_filter::<C>(&v["f"]))))
        }
        "vec" => {
            let cs: Vec<BoxS<C>> = v["cs"].as_array().cloned().unwrap_or_default().iter().map(|c| build_tree::<C>(stack, c, leaves)).collect();
            Box::new(cs)
        }
        "some" => Box::new(Some(build_tree::<C>(stack, &v["c"], leaves))),
        "none" => Box::new(None::<BoxS<C>>),
        "box" => Box::new(build_tree::<C>(stack, &v["c"], leaves)),
        "identity" => Box::new(tracing_subscriber::subscribe::Identity::new()),
        "veto" => Box::new(VetoVal),
        "and_then" => {
            let a = build_tree::<C>(stack, &v["a"], leaves);
            let b = build_tree::<C>(stack, &v["b"], leaves);
            Box::new(a.and_then(b))
        }
        _ => Box::new(tracing_subscriber::subscribe::Identity::new()),
    }
}

pub type C0 = Registry;
pub type C1 = tracing_subscriber::subscribe::Layered<BoxS<C0>, C0>;
pub type C2 = tracing_subscriber::subscribe::Layered<BoxS<C1>, C1>;
pub type C3 = tracing_subscriber::subscribe::Layered<BoxS<C2>, C2>;

/// Assemble a dispatcher from 1..3 top-level groups (each `.with(..)`ed onto the previous collector).
pub fn build_dispatch(stack: usize, groups: &[Value], leaves: &mut Vec<RecLayer>) -> tracing_core::Dispatch {
    let g0 = groups.get(0).cloned().unwrap_or(json!({"k": "identity"}));
    let c1: C1 = Registry::default().with(build_tree::<C0>(stack, &g0, leaves));
    if groups.len() == 1 {
        return tracing_core::Dispatch::new(c1);
    }
    let c2: C2 = c1.with(build_tree::<C1>(stack, &groups[1], leaves));
    if groups.len() == 2 {
        return tracing_core::Dispatch::new(c2);
    }
    let c3: C3 = c2.with(build_tree::<C2>(stack, &groups[2], leaves));
    if groups.len() == 3 {
        return tracing_core::Dispatch::new(c3);
    }
    let c4 = c3.with(build_tree::<C3>(stack, &groups[3], leaves));
    tracing_core::Dispatch::new(c4)
}

// ---- model -----------------------------------------------------------------------------------

#[derive(Clone, Debug)]
pub struct LeafModel {
    pub id: usize,
    /// per-layer filters on the path root -> leaf
    pub path: Vec<Value>,
}
#[derive(Clone, Debug, Default)]
pub struct StackModel {
    pub leaves: Vec<LeafModel>,
    pub globals: Vec<Value>,
    /// the stack contains a `VetoVal` layer (top level of a group)
    pub has_veto: bool,
}

pub fn flatten(groups: &[Value]) -> StackModel {
    let mut m = StackModel::default();
    fn go(v: &Value, path: &mut Vec<Value>, m: &mut StackModel) {
        match v["k"].as_str().unwrap_or("") {
            "leaf" => m.leaves.push(LeafModel { id: v["id"].as_u64().unwrap_or(0) as usize, path: path.clone() }),
            "global" => m.globals.push(v["f"].clone()),
            "veto" => m.has_veto = true,
            "filtered" => {
                path.push(v["f"].clone());
                go(&v["c"], path, m);
                path.pop();
            }
            "vec" => {
                for c in v["cs"].as_array().cloned().unwrap_or_default() {
                    go(&c, path, m);
                }
            }
            "some" | "box" => go(&v["c"], path, m),
            "and_then" => {
                go(&v["a"], path, m);
                go(&v["b"], path, m);
            }
            _ => {}
        }
    }
    for g in groups {
        go(g, &mut vec![], &mut m);
    }
    m
}

/// Context a filter is evaluated in: the level (1..5) of the current span *as visible to that filter*.
#[derive(Clone, Copy, Debug)]
pub struct Ctx {
    pub cur_level: Option<u8>,
}

fn table_eval(v: &Value, level: u8, target: &str) -> bool {
    // the most specific (longest) directive whose target is a string prefix of the event's target decides
    let mut best: Option<(usize, u64)> = None;
    for e in v["t"].as_array().cloned().unwrap_or_default() {
        let t = e[0].as_str().unwrap_or("");
        if target.starts_with(t) {
            let l = e[1].as_u64().unwrap_or(0);
            // a later duplicate replaces an earlier one (same key)
            if best.map_or(true, |(len, _)| t.len() >= len) {
                best = Some((t.len(), l));
            }
        }
    }
    match best {
        Some((_, l)) => (level as u64) <= l,
        None => v["default"].as_u64().map_or(false, |d| (level as u64) <= d),
    }
}

pub fn eval(f: &Value, site: usize, ctx: Ctx) -> bool {
    let (level, tg) = sites::SITES[site];
    let target = sites::TARGETS[tg as usize];
    match f["k"].as_str().unwrap_or("") {
        "level" => (level as u64) <= f["thr"].as_u64().unwrap_or(5),
        "targets" | "env" => table_eval(f, level, target),
        "fn" => f["mask"].as_u64().unwrap_or(0) & (1 << site) != 0,
        "dyn" => match f["mode"].as_str().unwrap_or("has_cur") {
            "has_cur" => ctx.cur_level.is_some(),
            "no_cur" => ctx.cur_level.is_none(),
            _ => ctx.cur_level.map_or(false, |l| l <= 3),
        },
        "and" => eval(&f["a"], site, ctx) && eval(&f["b"], site, ctx),
        "or" => eval(&f["a"], site, ctx) || eval(&f["b"], site, ctx),
        "not" => !eval(&f["a"], site, ctx),
        _ => true,
    }
}

pub fn has_dyn(f: &Value) -> bool {
    match f["k"].as_str().unwrap_or("") {
        "dyn" => true,
        "and" | "or" => has_dyn(&f["a"]) || has_dyn(&f["b"]),
        "not" => has_dyn(&f["a"]),
        _ => false,
    }
}

// ---- generators ------------------------------------------------------------------------------

pub fn gen_table(rng: &mut detsim::Rng) -> Value {
    let n = rng.range(1, 3);
    let mut t: Vec<Value> = vec![];
    let mut used: Vec<&str> = vec![];
    for _ in 0..n {
        let tg = *rng.pick(&["app", "app::db", "application", "other", "ap", "app::", "oth"]);
        if used.contains(&tg) {
            continue;
        }
        used.push(tg);
        t.push(json!([tg, rng.below(6)]));
    }
    let default = if rng.chance(1, 2) { json!(rng.below(6)) } else { Value::Null };
    json!({"t": t, "default": default})
}

pub fn gen_filter(rng: &mut detsim::Rng, depth: u32, allow_dyn: bool) -> Value {
    let r = rng.below(if depth >= 2 { 7 } else { 10 });
    match r {
        0 | 1 => json!({"k": "level", "thr": rng.below(6)}),
        2 => {
            let mut v = gen_table(rng);
            v["k"] = json!("targets");
            v
        }
        3 => {
            let mut v = gen_table(rng);
            v["k"] = json!("env");
            v
        }
        4 | 5 => json!({"k": "fn", "mask": rng.next_u64() & 0xFFFFF}),
        6 => {
            if allow_dyn {
                json!({"k": "dyn", "mode": *rng.pick(&["has_cur", "no_cur", "cur_lvl"])})
            } else {
                json!({"k": "level", "thr": rng.below(6)})
            }
        }
        7 => json!({"k": "and", "a": gen_filter(rng, depth + 1, allow_dyn), "b": gen_filter(rng, depth + 1, allow_dyn)}),
        8 => json!({"k": "or", "a": gen_filter(rng, depth + 1, allow_dyn), "b": gen_filter(rng, depth + 1, allow_dyn)}),
        _ => json!({"k": "not", "a": gen_filter(rng, depth + 1, allow_dyn)}),
    }
}

pub fn gen_global(rng: &mut detsim::Rng) -> Value {
    match rng.below(6) {
        0 | 1 => json!({"k": "level", "thr": rng.range(2, 5)}),
        2 => {
            let mut v = gen_table(rng);
            v["k"] = json!("targets");
            v
        }
        3 => {
            let mut v = gen_table(rng);
            v["k"] = json!("env");
            v
        }
        4 => json!({"k": "fn", "mask": rng.next_u64() & 0xFFFFF | rng.next_u64() & 0xFFFFF}),
        _ => json!({"k": "dyn", "mode": *rng.pick(&["has_cur", "no_cur", "cur_lvl"])}),
    }
}

pub fn _unused() -> Arc<()> {
    Arc::new(())
}
