//! Parent-side driver: fans seeds over worker slots (one fresh child process per run), aggregates
//! coverage, minimises violations, writes replay files and the evidence file.
use crate::fw::*;
use detsim::rng::mix;
use serde_json::{json, Value};
use std::collections::{BTreeMap, HashSet};
use std::io::{Read, Write};
use std::process::{Command, Stdio};
use std::sync::atomic::{AtomicBool, AtomicU64, Ordering};
use std::sync::{Arc, Mutex};
use std::time::{Duration, Instant};

pub fn verif_root() -> String {
    std::env::var("VERIF_ROOT").unwrap_or_else(|_| "/verif".into())
}

pub struct ChildOut {
    pub res: Option<RunResult>,
    pub status: String,
    pub stderr: String,
}

static WATCH: Mutex<Vec<(u32, Instant)>> = Mutex::new(Vec::new());
static WATCH_STARTED: AtomicBool = AtomicBool::new(false);
pub static CHILD_TIMEOUT_MS: AtomicU64 = AtomicU64::new(20_000);
static KILLED: Mutex<Vec<u32>> = Mutex::new(Vec::new());

fn start_watchdog() {
    if WATCH_STARTED.swap(true, Ordering::SeqCst) {
        return;
    }
    std::thread::spawn(|| loop {
        std::thread::sleep(Duration::from_millis(200));
        let lim = Duration::from_millis(CHILD_TIMEOUT_MS.load(Ordering::SeqCst));
        let mut w = WATCH.lock().unwrap();
        let now = Instant::now();
        w.retain(|(pid, t0)| {
            if now.duration_since(*t0) > lim {
                KILLED.lock().unwrap().push(*pid);
                unsafe {
                    kill(*pid as i32, 9);
                }
                false
            } else {
                true
            }
        });
    });
}
extern "C" {
    fn kill(pid: i32, sig: i32) -> i32;
}

pub fn run_child(plan: &Value, keep_log: bool) -> ChildOut {
    start_watchdog();
    let exe = std::env::current_exe().expect("current_exe");
    let mut cmd = Command::new(exe);
    cmd.arg("child");
    if keep_log {
        cmd.arg("--log");
    }
    cmd.stdin(Stdio::piped()).stdout(Stdio::piped()).stderr(if keep_log { Stdio::piped() } else { Stdio::null() });
    let mut ch = match cmd.spawn() {
        Ok(c) => c,
        Err(e) => return ChildOut { res: None, status: format!("spawn-failed: {e}"), stderr: String::new() },
    };
    let pid = ch.id();
    WATCH.lock().unwrap().push((pid, Instant::now()));
    {
        let mut si = ch.stdin.take().unwrap();
        let _ = si.write_all(plan.to_string().as_bytes());
    }
    let mut out = String::new();
    let mut so = ch.stdout.take().unwrap();
    let errh = ch.stderr.take().map(|mut se| {
        std::thread::spawn(move || {
            let mut s = String::new();
            let _ = se.read_to_string(&mut s);
            s
        })
    });
    let _ = so.read_to_string(&mut out);
    let st = ch.wait();
    WATCH.lock().unwrap().retain(|(p, _)| *p != pid);
    let stderr = errh.map(|h| h.join().unwrap_or_default()).unwrap_or_default();
    let was_killed = {
        let mut k = KILLED.lock().unwrap();
        if let Some(i) = k.iter().position(|p| *p == pid) {
            k.remove(i);
            true
        } else {
            false
        }
    };
    let mut res = None;
    for line in out.lines() {
        if let Some(j) = line.strip_prefix("RESULT ") {
            res = serde_json::from_str::<RunResult>(j).ok();
        }
    }
    let status = if was_killed {
        "hang".to_string()
    } else {
        match st {
            Ok(s) if s.success() => "exit0".into(),
            Ok(s) => format!("exit:{s}"),
            Err(e) => format!("wait-failed:{e}"),
        }
    };
    ChildOut { res, status, stderr }
}

/// Turn a child's outcome into a result record; children that died without a verdict are classified
/// here: wall-clock hang -> violation class "hang" if the engine says liveness is in scope (prop
/// marks it), otherwise harness error.
pub fn settle(eng: &dyn Engine, plan: &Value, out: ChildOut) -> RunResult {
    match out.res {
        Some(r) => r,
        None => {
            let mut r = RunResult::default();
            let hang_is_violation = plan["hang_is_violation"].as_bool().unwrap_or(false);
            let crash_is_violation = plan["crash_is_violation"].as_bool().unwrap_or(true);
            if out.status == "hang" {
                if hang_is_violation {
                    r.verdict = "violation".into();
                    r.class = "hang".into();
                } else {
                    r.verdict = "harness".into();
                    r.class = "hang".into();
                }
            } else if out.status.starts_with("exit:") && crash_is_violation {
                // the child died (abort/segfault/process::exit from code under test) without a verdict
                r.verdict = "violation".into();
                r.class = "crash".into();
            } else {
                r.verdict = "harness".into();
                r.class = "no-result".into();
            }
            r.detail = format!("{} {}", out.status, out.stderr.lines().rev().take(3).collect::<Vec<_>>().join(" | "));
            let _ = eng;
            r
        }
    }
}

fn same_failure(a: &RunResult, class: &str) -> bool {
    a.verdict == "violation" && a.class == class
}

/// Generic minimiser over the plan's JSON shape: `steps` (array), `faults` (array, optional),
/// engine simplifications, then the schedule (convert to an explicit switch list and thin it out).
pub fn minimise(eng: &dyn Engine, plan: &Value, class: &str, budget_runs: usize, deadline: Instant) -> (Value, usize) {
    let mut best = plan.clone();
    let mut used = 0usize;
    let mut try_cand = |cand: &Value, used: &mut usize| -> Option<RunResult> {
        if *used >= budget_runs || Instant::now() > deadline {
            return None;
        }
        *used += 1;
        let r = settle(eng, cand, run_child(cand, false));
        // a smaller plan must fail the same way AND stay an unlisted violation: shrinking must not slide into a
        // listed finding that happens to share the class
        if same_failure(&r, class) && eng.classify_known(cand, &r).is_none() {
            Some(r)
        } else {
            None
        }
    };
    // 1. array fields: delta-debugging style chunk removal
    for key in ["steps", "faults", "pre"] {
        let mut chunk = best[key].as_array().map_or(0, |a| a.len()) / 2;
        while chunk >= 1 {
            let mut i = 0;
            loop {
                let len = best[key].as_array().map_or(0, |a| a.len());
                if i >= len {
                    break;
                }
                let mut cand = best.clone();
                {
                    let arr = cand[key].as_array_mut().unwrap();
                    let end = (i + chunk).min(arr.len());
                    arr.drain(i..end);
                }
                if try_cand(&cand, &mut used).is_some() {
                    best = cand;
                } else {
                    i += chunk;
                }
                if used >= budget_runs || Instant::now() > deadline {
                    break;
                }
            }
            if chunk == 1 {
                break;
            }
            chunk /= 2;
        }
    }
    // 2. engine-specific simplifications, to a fixpoint
    loop {
        let mut progressed = false;
        for cand in eng.simplify(&best) {
            if try_cand(&cand, &mut used).is_some() {
                best = cand;
                progressed = true;
                break;
            }
        }
        if !progressed || used >= budget_runs || Instant::now() > deadline {
            break;
        }
    }
    // 3. schedule: make it explicit, then delete switches
    if best["sched"]["sync"].as_bool().unwrap_or(false) && best["sched"]["kind"] != "replay" {
        // try the plain run-to-block schedule first
        let mut cand = best.clone();
        cand["sched"]["kind"] = json!("rtb");
        if try_cand(&cand, &mut used).is_some() {
            best = cand;
        } else {
            let mut ws = best.clone();
            ws["want_switches"] = json!(true);
            let r = settle(eng, &ws, run_child(&ws, false));
            used += 1;
            if same_failure(&r, class) {
                let mut cand = best.clone();
                cand["sched"]["kind"] = json!("replay");
                cand["sched"]["switches"] = json!(r.switch_list);
                if try_cand(&cand, &mut used).is_some() {
                    best = cand;
                }
            }
        }
    }
    if best["sched"]["kind"] == "replay" {
        let mut chunk = best["sched"]["switches"].as_array().map_or(0, |a| a.len()) / 2;
        while chunk >= 1 {
            let mut i = 0;
            loop {
                let len = best["sched"]["switches"].as_array().map_or(0, |a| a.len());
                if i >= len {
                    break;
                }
                let mut cand = best.clone();
                {
                    let arr = cand["sched"]["switches"].as_array_mut().unwrap();
                    let end = (i + chunk).min(arr.len());
                    arr.drain(i..end);
                }
                if try_cand(&cand, &mut used).is_some() {
                    best = cand;
                } else {
                    i += chunk;
                }
                if used >= budget_runs || Instant::now() > deadline {
                    break;
                }
            }
            if chunk == 1 {
                break;
            }
            chunk /= 2;
        }
    }
    (best, used)
}

pub struct Opts {
    pub prop: String,
    pub tier: String,
    pub seed: u64,
    pub runs: u64,
    pub max_secs: u64,
    pub jobs: usize,
    pub write_evidence: bool,
}

#[derive(Default)]
struct Agg {
    evaluations: u64,
    ok: u64,
    discarded: u64,
    harness: u64,
    violations: u64,
    known_hits: BTreeMap<String, u64>,
    nontrivial_digests: HashSet<(u64, u64)>,
    interleavings: HashSet<u64>,
    plans: HashSet<u64>,
    faults: BTreeMap<String, u64>,
    probes: BTreeMap<String, u64>,
    steps: u64,
    decisions: u64,
    switches: u64,
    clock_ns: u128,
    time_jumps: u64,
    per_mode: BTreeMap<String, u64>,
    per_sched: BTreeMap<String, u64>,
    samples: Vec<Value>,
    harness_samples: Vec<String>,
    found: Vec<(String, Value, RunResult, u64)>, // class, plan, result, seed
}

pub fn known_findings() -> Vec<Value> {
    let p = format!("{}/known_findings.json", verif_root());
    match std::fs::read_to_string(&p) {
        Ok(s) => serde_json::from_str::<Value>(&s).ok().and_then(|v| v["findings"].as_array().cloned()).unwrap_or_default(),
        Err(_) => vec![],
    }
}

pub fn open_findings_for(prop: &str) -> Vec<Value> {
    known_findings().into_iter().filter(|f| f["property"] == prop && f["status"] == "open").collect()
}

pub fn finding_open(id: &str) -> bool {
    known_findings().iter().any(|f| f["id"] == id && f["status"] == "open")
}

pub fn run_check(eng: &'static dyn Engine, o: &Opts) -> i32 {
    let t0 = Instant::now();
    let modes = eng.modes(&o.prop);
    // weighted round-robin table of modes
    let mut table: Vec<String> = Vec::new();
    for m in &modes {
        for _ in 0..eng.mode_weight(&o.prop, m) {
            table.push(m.clone());
        }
    }
    let agg = Arc::new(Mutex::new(Agg::default()));
    let next = Arc::new(AtomicU64::new(0));
    let stop = Arc::new(AtomicBool::new(false));
    let deadline = t0 + Duration::from_secs(o.max_secs);
    let mut handles = vec![];
    for _ in 0..o.jobs {
        let agg = agg.clone();
        let next = next.clone();
        let stop = stop.clone();
        let table = table.clone();
        let prop = o.prop.clone();
        let tier = o.tier.clone();
        let base = o.seed;
        let runs = o.runs;
        handles.push(std::thread::spawn(move || loop {
            if stop.load(Ordering::SeqCst) || Instant::now() > deadline {
                break;
            }
            let i = next.fetch_add(1, Ordering::SeqCst);
            if i >= runs {
                break;
            }
            let mode = table[(i % table.len() as u64) as usize].clone();
            let seed = mix(base, i);
            let g = GenCtx { prop: prop.clone(), seed, tier: tier.clone(), mode: mode.clone() };
            let plan = eng.generate(&g);
            let out = run_child(&plan, false);
            let res = settle(eng, &plan, out);
            let mut a = agg.lock().unwrap();
            a.evaluations += 1;
            *a.per_mode.entry(mode.clone()).or_insert(0) += 1;
            let sk = format!("{}{}", if plan["sched"]["sync"].as_bool().unwrap_or(false) { "sync:" } else { "op:" }, plan["sched"]["kind"].as_str().unwrap_or("?"));
            *a.per_sched.entry(sk).or_insert(0) += 1;
            a.steps += res.steps;
            a.decisions += res.decisions;
            a.switches += res.switches;
            a.clock_ns += res.clock_ns as u128;
            a.time_jumps += res.time_jumps;
            for (k, v) in &res.faults {
                *a.faults.entry(k.clone()).or_insert(0) += v;
            }
            for (k, v) in &res.probes {
                *a.probes.entry(k.clone()).or_insert(0) += v;
            }
            let pd = digest_str(&plan["steps"].to_string()) ^ digest_str(&plan["cfg"].to_string()).rotate_left(7);
            a.plans.insert(pd);
            if res.decisions > 0 {
                a.interleavings.insert(res.sched_digest ^ pd.rotate_left(13));
            }
            if res.nontrivial {
                a.nontrivial_digests.insert((pd, res.sched_digest));
            }
            if a.samples.len() < 3 && res.nontrivial && res.verdict == "ok" {
                a.samples.push(json!({"seed": seed, "mode": mode, "plan": plan, "result": {"verdict": res.verdict, "steps": res.steps, "decisions": res.decisions, "faults": res.faults, "probes": res.probes}}));
            }
            match res.verdict.as_str() {
                "ok" => a.ok += 1,
                "discard" => a.discarded += 1,
                "harness" => {
                    a.harness += 1;
                    if a.harness_samples.len() < 5 {
                        a.harness_samples.push(format!("seed={seed} mode={mode} {} {}", res.class, res.detail));
                    }
                }
                "violation" => {
                    if let Some(line) = eng.classify_known(&plan, &res) {
                        *a.known_hits.entry(line).or_insert(0) += 1;
                    } else {
                        a.violations += 1;
                        if std::env::var("VERIF_DEBUG").is_ok() {
                            eprintln!("VIOL seed={seed} mode={mode} class={} detail={}", res.class, res.detail);
                        }
                        if !a.found.iter().any(|f| f.0 == res.class) && a.found.len() < 3 {
                            a.found.push((res.class.clone(), plan.clone(), res.clone(), seed));
                        }
                        if a.found.len() >= 3 || a.violations >= 50 {
                            stop.store(true, Ordering::SeqCst);
                        }
                    }
                }
                _ => a.harness += 1,
            }
            for k in &res.known {
                *a.known_hits.entry(k.clone()).or_insert(0) += 1;
            }
        }));
    }
    for h in handles {
        let _ = h.join();
    }
    let search_wall = t0.elapsed().as_secs_f64();
    let mut a = std::mem::take(&mut *agg.lock().unwrap());
    let mut exit = 0;
    // known findings: one line per listed open finding of this property
    for f in open_findings_for(&o.prop) {
        let id = f["id"].as_str().unwrap_or("?");
        let hits: u64 = a.known_hits.iter().filter(|(k, _)| k.starts_with(id)).map(|(_, v)| *v).sum();
        println!(
            "KNOWN-FINDING: property={} {} {} ({})",
            o.prop,
            id,
            f["what"].as_str().unwrap_or(""),
            if hits > 0 { format!("reproduced in {hits} runs") } else { "not reproduced in this run".to_string() }
        );
    }
    // violations: minimise, write replay
    let mut replay_paths = vec![];
    let found = std::mem::take(&mut a.found);
    for (class, plan, res, seed) in &found {
        let dl = Instant::now() + Duration::from_secs(if o.tier == "quick" { 25 } else { 90 });
        let (min_plan, used) = minimise(eng, plan, class, 400, dl);
        let final_res = settle(eng, &min_plan, run_child(&min_plan, false));
        let (use_plan, use_res) = if same_failure(&final_res, class) { (min_plan, final_res) } else { (plan.clone(), res.clone()) };
        let dir = format!("{}/replays/{}", verif_root(), o.prop);
        let _ = std::fs::create_dir_all(&dir);
        let path = format!("{dir}/{seed}-{class}.json");
        let doc = json!({
            "property": o.prop, "class": class, "seed": seed, "detail": use_res.detail, "minimiser_runs": used,
            "original_steps": plan["steps"].as_array().map_or(0, |x| x.len()),
            "plan": use_plan, "tail": use_res.tail,
            "build": if cfg!(feature = "pl") { "default" } else { "stdlocks" },
        });
        let _ = std::fs::write(&path, serde_json::to_string_pretty(&doc).unwrap());
        println!("VIOLATION property={} replay={}", o.prop, path);
        println!("  class={} detail={}", class, use_res.detail);
        replay_paths.push(path);
        exit = 1;
    }
    if a.harness > 0 {
        eprintln!("harness errors: {} of {} runs; e.g. {:?}", a.harness, a.evaluations, a.harness_samples);
        // a small share of infrastructure hiccups is tolerated and reported; a large one is exit 2
        if exit == 0 && a.harness * 50 > a.evaluations {
            exit = 2;
        }
    }
    let wall = t0.elapsed().as_secs_f64();
    if a.samples.is_empty() {
        // always give at least one concrete case
        let g = GenCtx { prop: o.prop.clone(), seed: mix(o.seed, 0), tier: o.tier.clone(), mode: "must".into() };
        a.samples.push(json!({"seed": g.seed, "mode": "must", "plan": eng.generate(&g)}));
    }
    if o.write_evidence {
        let ev = json!({
            "property_id": o.prop,
            "tier": o.tier,
            "seed": o.seed,
            "level": "exploration",
            "wall_s": wall,
            "violations": a.violations,
            "coverage": {
                "evaluations": a.evaluations,
                "distinct_nontrivial": a.nontrivial_digests.len(),
                "rule": eng.rule(&o.prop),
                "samples": a.samples,
                "runs_ok": a.ok,
                "runs_discarded_step_cap": a.discarded,
                "runs_harness_error": a.harness,
                "runs_per_mode": a.per_mode,
                "runs_per_schedule_kind": a.per_sched,
                "distinct_plans": a.plans.len(),
                "distinct_interleavings": a.interleavings.len(),
                "interleaving_measure": "FNV digest of (chosen thread, #candidates, thread, site) over every scheduling decision with >=2 candidates, combined with the plan digest",
                "scheduler_steps": a.steps,
                "scheduling_decisions": a.decisions,
                "context_switches": a.switches,
                "simulated_time_s": (a.clock_ns as f64) / 1e9,
                "virtual_time_jumps": a.time_jumps,
                "fault_firings": a.faults,
                "probe_hits": a.probes,
                "known_finding_hits": a.known_hits,
                "runs_per_hour": if search_wall > 0.0 { (a.evaluations as f64 / search_wall * 3600.0) as u64 } else { 0 },
                "search_wall_s": search_wall,
                "components": eng.components(),
                "other_corpora_explored_before_this_run": std::env::var("VERIF_OTHER_CORPORA").unwrap_or_default(),
                "std_locks_pass_before_this_run": std::env::var("VERIF_STDLOCKS_PASS").unwrap_or_default(),
                "replays": replay_paths,
            },
            "assumptions": [
                "sequential consistency: the scheduler interleaves whole atomic operations; weak memory orderings are not explored",
                "explored feature configuration is portable-atomic + parking_lot (the seams), see DESIGN.md 2.2; for the tracing-subscriber engines a shorter pass of total-order runs under std's poisoning locks (the crates' default configuration) precedes each run, see coverage.std_locks_pass_before_this_run",
                "shims (atomics, RwLock, bounded channel) are faithful to the documented semantics of the crates they replace",
                "reference models in the harness are the oracle and are trusted",
                "sampling, not proof: a clean batch is evidence"
            ]
        });
        let dir = format!("{}/evidence", verif_root());
        let _ = std::fs::create_dir_all(&dir);
        let _ = std::fs::write(format!("{dir}/{}.json", o.prop), serde_json::to_string_pretty(&ev).unwrap());
    }
    println!(
        "{} {}: runs={} ok={} discarded={} harness={} violations={} known_hits={} nontrivial_distinct={} interleavings={} wall={:.1}s",
        o.prop,
        o.tier,
        a.evaluations,
        a.ok,
        a.discarded,
        a.harness,
        a.violations,
        a.known_hits.values().sum::<u64>(),
        a.nontrivial_digests.len(),
        a.interleavings.len(),
        wall
    );
    exit
}

pub fn replay(eng: &dyn Engine, path: &str, keep_log: bool) -> i32 {
    let s = match std::fs::read_to_string(path) {
        Ok(s) => s,
        Err(e) => {
            eprintln!("cannot read {path}: {e}");
            return 2;
        }
    };
    let doc: Value = serde_json::from_str(&s).expect("replay json");
    let plan = &doc["plan"];
    let out = run_child(plan, keep_log);
    if keep_log {
        eprint!("{}", out.stderr);
    }
    let res = settle(eng, plan, out);
    println!("replay verdict={} class={} detail={}", res.verdict, res.class, res.detail);
    for l in &res.tail {
        println!("  {l}");
    }
    if res.verdict == "violation" {
        if eng.classify_known(plan, &res).is_some() {
            println!("KNOWN-FINDING: property={} (replay matches a listed finding)", doc["property"].as_str().unwrap_or("?"));
            return 0;
        }
        println!("VIOLATION property={} replay={}", doc["property"].as_str().unwrap_or("?"), path);
        1
    } else if res.verdict == "ok" {
        0
    } else {
        2
    }
}

/// Determinism self-test: every seed twice, in separate processes; compare event-log and schedule digests.
pub fn selftest_determinism(eng: &'static dyn Engine, prop: &str, n: u64, base: u64, jobs: usize) -> i32 {
    let modes = eng.modes(prop);
    let next = Arc::new(AtomicU64::new(0));
    let bad = Arc::new(Mutex::new(Vec::<String>::new()));
    let mut hs = vec![];
    for _ in 0..jobs {
        let next = next.clone();
        let bad = bad.clone();
        let modes = modes.clone();
        let prop = prop.to_string();
        hs.push(std::thread::spawn(move || loop {
            let i = next.fetch_add(1, Ordering::SeqCst);
            if i >= n {
                break;
            }
            let mode = modes[(i % modes.len() as u64) as usize].clone();
            let seed = mix(base, i);
            let g = GenCtx { prop: prop.clone(), seed, tier: "quick".into(), mode };
            let p1 = eng.generate(&g);
            let p2 = eng.generate(&g);
            if p1.to_string() != p2.to_string() {
                bad.lock().unwrap().push(format!("seed {seed}: generator not pure"));
                continue;
            }
            let a = settle(eng, &p1, run_child(&p1, false));
            let b = settle(eng, &p1, run_child(&p1, false));
            if a.log_digest != b.log_digest || a.sched_digest != b.sched_digest || a.verdict != b.verdict || a.class != b.class || a.steps != b.steps {
                bad.lock().unwrap().push(format!(
                    "seed {seed}: run1=({},{},{:x},{:x},{}) run2=({},{},{:x},{:x},{})",
                    a.verdict, a.class, a.log_digest, a.sched_digest, a.steps, b.verdict, b.class, b.log_digest, b.sched_digest, b.steps
                ));
            }
        }));
    }
    for h in hs {
        let _ = h.join();
    }
    let bad = bad.lock().unwrap();
    if bad.is_empty() {
        println!("determinism {prop}: {n} seeds x 2 processes at {jobs} workers: identical");
        0
    } else {
        println!("determinism {prop}: {} divergences of {n}", bad.len());
        for b in bad.iter().take(10) {
            println!("  {b}");
        }
        2
    }
}
