//! span-sim, part 2: C17 — `#[instrument]` preserves behaviour exactly and adds one well-formed span per call.
//! The corpus (twin pairs) is generated at build time; this engine drives the pairs with tracked arguments under a
//! recording collector, none, or a filtered-out one; async twins are polled by a seeded executor, interleaved
//! with another instrumented future, migrated between two threads, cancelled, or made to panic.
use crate::corpus::{self, Fx, Inputs, Pair, PAIRS};
use crate::fw::*;
use detsim::Rng;
use serde_json::{json, Value};
use std::cell::RefCell;
use std::collections::HashMap;
use std::sync::atomic::{AtomicU64, AtomicUsize, Ordering};
use std::sync::{Arc, Mutex};
use std::task::{Context, Poll, RawWaker, RawWakerVTable, Waker};
use tracing_core::dispatch::{self, Dispatch};
use tracing_core::span::{Attributes, Current, Id, Record};
use tracing_core::{Collect, Event, Interest, LevelFilter, Metadata};

pub struct InstrEngine;

#[derive(Clone, Debug, Default)]
struct R {
    stamp: u64,
    thread: usize,
    kind: &'static str,
    id: u64,
    parent: u64,
    name: String,
    level: u8,
    target: String,
    fields: Vec<(String, String)>,
}
static RLOG: Mutex<Vec<R>> = Mutex::new(Vec::new());

struct FieldRec(Vec<(String, String)>);
/// Values are tagged with the visitor method that delivered them (`u:`, `i:`, `b:`, `s:` typed, `d:` Debug), so
/// that an argument recorded through `Debug` instead of as a typed value is visible.
impl tracing_core::field::Visit for FieldRec {
    fn record_debug(&mut self, f: &tracing_core::field::Field, v: &dyn std::fmt::Debug) {
        self.0.push((f.name().to_string(), format!("d:{:?}", v)));
    }
    fn record_str(&mut self, f: &tracing_core::field::Field, v: &str) {
        self.0.push((f.name().to_string(), format!("s:{v}")));
    }
    fn record_u64(&mut self, f: &tracing_core::field::Field, v: u64) {
        self.0.push((f.name().to_string(), format!("u:{v}")));
    }
    fn record_i64(&mut self, f: &tracing_core::field::Field, v: i64) {
        self.0.push((f.name().to_string(), format!("i:{v}")));
    }
    fn record_bool(&mut self, f: &tracing_core::field::Field, v: bool) {
        self.0.push((f.name().to_string(), format!("b:{v}")));
    }
}

thread_local! {
    static STACK: RefCell<Vec<u64>> = const { RefCell::new(Vec::new()) };
}

struct AttrCollect {
    next: AtomicU64,
    max: u8,
}
fn lnum(l: &tracing_core::Level) -> u8 {
    crate::sites::level_num(l)
}
impl AttrCollect {
    fn push(&self, mut r: R) {
        r.stamp = detsim::stamp();
        r.thread = detsim::current();
        ev(format!("{} t{} id{} p{} {} l{} {} {:?}", r.kind, r.thread, r.id, r.parent, r.name, r.level, r.target, r.fields));
        RLOG.lock().unwrap().push(r);
    }
}
impl Collect for AttrCollect {
    fn register_callsite(&self, m: &'static Metadata<'static>) -> Interest {
        if lnum(m.level()) <= self.max {
            Interest::always()
        } else {
            Interest::never()
        }
    }
    fn enabled(&self, m: &Metadata<'_>) -> bool {
        lnum(m.level()) <= self.max
    }
    fn max_level_hint(&self) -> Option<LevelFilter> {
        Some(crate::stack::lf(self.max as u64))
    }
    fn new_span(&self, a: &Attributes<'_>) -> Id {
        let id = self.next.fetch_add(1, Ordering::SeqCst);
        let mut f = FieldRec(vec![]);
        a.record(&mut f);
        let parent = if a.is_root() {
            0
        } else if a.is_contextual() {
            STACK.with(|s| s.borrow().last().copied().unwrap_or(0))
        } else {
            a.parent().map(|p| p.into_u64()).unwrap_or(0)
        };
        let m = a.metadata();
        self.push(R { kind: "new_span", id, parent, name: m.name().to_string(), level: lnum(m.level()), target: m.target().to_string(), fields: f.0, ..Default::default() });
        Id::from_u64(id)
    }
    fn record(&self, s: &Id, v: &Record<'_>) {
        let mut f = FieldRec(vec![]);
        v.record(&mut f);
        self.push(R { kind: "record", id: s.into_u64(), fields: f.0, ..Default::default() });
    }
    fn record_follows_from(&self, s: &Id, f: &Id) {
        self.push(R { kind: "follows_from", id: s.into_u64(), parent: f.into_u64(), ..Default::default() });
    }
    fn event(&self, e: &Event<'_>) {
        let mut f = FieldRec(vec![]);
        e.record(&mut f);
        let parent = if e.is_root() {
            0
        } else if e.is_contextual() {
            STACK.with(|s| s.borrow().last().copied().unwrap_or(0))
        } else {
            e.parent().map(|p| p.into_u64()).unwrap_or(0)
        };
        let m = e.metadata();
        self.push(R { kind: "event", parent, name: m.name().to_string(), level: lnum(m.level()), target: m.target().to_string(), fields: f.0, ..Default::default() });
    }
    fn enter(&self, s: &Id) {
        STACK.with(|st| st.borrow_mut().push(s.into_u64()));
        self.push(R { kind: "enter", id: s.into_u64(), ..Default::default() });
    }
    fn exit(&self, s: &Id) {
        STACK.with(|st| {
            let mut st = st.borrow_mut();
            if let Some(p) = st.iter().rposition(|x| *x == s.into_u64()) {
                st.remove(p);
            }
        });
        self.push(R { kind: "exit", id: s.into_u64(), ..Default::default() });
    }
    fn clone_span(&self, id: &Id) -> Id {
        self.push(R { kind: "clone_span", id: id.into_u64(), ..Default::default() });
        id.clone()
    }
    fn try_close(&self, id: Id) -> bool {
        self.push(R { kind: "try_close", id: id.into_u64(), ..Default::default() });
        false
    }
    fn current_span(&self) -> Current {
        match STACK.with(|s| s.borrow().last().copied()) {
            Some(id) => Current::new(Id::from_u64(id), &NULL_META),
            None => Current::none(),
        }
    }
}
struct NullCs;
impl tracing_core::callsite::Callsite for NullCs {
    fn set_interest(&self, _: Interest) {}
    fn metadata(&self) -> &Metadata<'_> {
        &NULL_META
    }
}
static NULL_CS: NullCs = NullCs;
static NULL_META: Metadata<'static> = tracing_core::metadata! {
    name: "instr_null", target: "instr_null", level: tracing_core::Level::TRACE, fields: &[], callsite: &NULL_CS, kind: tracing_core::metadata::Kind::SPAN,
};

#[derive(Clone, Debug, Default)]
struct Outcome {
    ret: Option<String>,
    panic: Option<String>,
    log: Vec<String>,
    observed: Vec<(String, u64)>,
    clones: u64,
    drops: u64,
    drop_spans: Vec<u64>,
    completed: bool,
    polls: u64,
    /// what the executor saw as current span between polls
    between: Vec<u64>,
    window: (u64, u64),
}

fn inputs_of(v: &Value) -> Inputs {
    Inputs { aid: v["aid"].as_u64().unwrap_or(1) as u32, b: v["b"].as_u64().unwrap_or(0) as u32, c: v["c"].as_str().unwrap_or("").to_string(), x: v["x"].as_u64().unwrap_or(0) as u32, y: v["y"].as_u64().unwrap_or(0) as u32, k: v["k"].as_u64().unwrap_or(0) as u32 }
}

fn noop_waker() -> Waker {
    fn clone(_: *const ()) -> RawWaker {
        RawWaker::new(std::ptr::null(), &VTABLE)
    }
    fn noop(_: *const ()) {}
    static VTABLE: RawWakerVTable = RawWakerVTable::new(clone, noop, noop, noop);
    unsafe { Waker::from_raw(RawWaker::new(std::ptr::null(), &VTABLE)) }
}

fn finish_outcome(fx: &Arc<Fx>, o: &mut Outcome) {
    o.log = fx.log.lock().unwrap().clone();
    o.observed = fx.observed.lock().unwrap().clone();
    o.clones = fx.counters.clones.load(Ordering::SeqCst);
    o.drops = fx.counters.drops.load(Ordering::SeqCst);
    o.drop_spans = fx.counters.drop_spans.lock().unwrap().clone();
}

fn run_sync(pair: &Pair, inp: &Inputs, instrumented: bool) -> Outcome {
    let fx = Arc::new(Fx::default());
    let mut o = Outcome::default();
    o.window.0 = detsim::stamp();
    let r = std::panic::catch_unwind(std::panic::AssertUnwindSafe(|| (pair.run)(&fx, inp, instrumented)));
    o.window.1 = detsim::stamp();
    match r {
        Ok(s) => {
            o.ret = Some(s);
            o.completed = true;
        }
        Err(p) => o.panic = Some(detsim::panic_msg(&p)),
    }
    finish_outcome(&fx, &mut o);
    o
}

static TURN: AtomicUsize = AtomicUsize::new(0);

struct Task {
    fut: Option<corpus::BoxFut>,
    fx: Arc<Fx>,
    out: Outcome,
}

/// Run an async twin under the step schedule. `tasks[0]` is the pair under test, `tasks[1]` an optional
/// second instrumented future that is interleaved with it. Steps run on the plan's thread in a total order.
fn run_async(pairs: Vec<(&'static Pair, Inputs, bool)>, steps: &[Value], d: Option<Dispatch>, nthreads: usize) -> Vec<Outcome> {
    let tasks: Arc<Mutex<Vec<Task>>> = Arc::new(Mutex::new(vec![]));
    for (p, inp, instrumented) in &pairs {
        let fx = Arc::new(Fx::default());
        let mut out = Outcome::default();
        out.window.0 = detsim::stamp();
        // creating the future is itself part of the call (boxed futures build their span here)
        let g = d.as_ref().map(dispatch::set_default);
        let fut = std::panic::catch_unwind(std::panic::AssertUnwindSafe(|| (p.make)(fx.clone(), inp.clone(), *instrumented)));
        drop(g);
        let fut = match fut {
            Ok(f) => Some(f),
            Err(pn) => {
                out.panic = Some(detsim::panic_msg(&pn));
                None
            }
        };
        tasks.lock().unwrap().push(Task { fut, fx, out });
    }
    let indexed: Vec<(usize, usize, Value)> = steps.iter().enumerate().map(|(gi, s)| (gi, (s["t"].as_u64().unwrap_or(0) as usize) % nthreads, s.clone())).collect();
    TURN.store(0, Ordering::SeqCst);
    let run = {
        let tasks = tasks.clone();
        let d = d.clone();
        move |mine: Vec<(usize, Value)>| {
            let _g = d.as_ref().map(dispatch::set_default);
            for (gi, s) in mine {
                detsim::block_until("turn", None, || TURN.load(Ordering::SeqCst) == gi);
                let ti = s["task"].as_u64().unwrap_or(0) as usize;
                let taken = {
                    let mut ts = tasks.lock().unwrap();
                    ts.get_mut(ti).and_then(|t| t.fut.take())
                };
                match (s["op"].as_str().unwrap_or(""), taken) {
                    ("poll", Some(mut fut)) => {
                        let before = tracing::Span::current().id().map(|i| i.into_u64()).unwrap_or(0);
                        let w = noop_waker();
                        let mut cx = Context::from_waker(&w);
                        let r = std::panic::catch_unwind(std::panic::AssertUnwindSafe(|| fut.as_mut().poll(&mut cx)));
                        let after = tracing::Span::current().id().map(|i| i.into_u64()).unwrap_or(0);
                        let mut ts = tasks.lock().unwrap();
                        let t = &mut ts[ti];
                        t.out.polls += 1;
                        t.out.between.push(before);
                        t.out.between.push(after);
                        match r {
                            Ok(Poll::Pending) => t.fut = Some(fut),
                            Ok(Poll::Ready(s)) => {
                                t.out.ret = Some(s);
                                t.out.completed = true;
                                drop(ts);
                                drop(fut);
                            }
                            Err(p) => {
                                t.out.panic = Some(detsim::panic_msg(&p));
                                drop(ts);
                                drop(fut);
                            }
                        }
                    }
                    ("cancel", Some(fut)) => {
                        fault("cancel_future");
                        drop(fut);
                    }
                    (_, Some(fut)) => {
                        tasks.lock().unwrap()[ti].fut = Some(fut);
                    }
                    _ => {}
                }
                TURN.store(gi + 1, Ordering::SeqCst);
                detsim::progress();
            }
        }
    };
    let mut tids = vec![];
    for t in 1..nthreads {
        let mine: Vec<(usize, Value)> = indexed.iter().filter(|x| x.1 == t).map(|x| (x.0, x.2.clone())).collect();
        let run = run.clone();
        tids.push(detsim::spawn(&format!("t{t}"), move || run(mine)));
    }
    let mine: Vec<(usize, Value)> = indexed.iter().filter(|x| x.1 == 0).map(|x| (x.0, x.2.clone())).collect();
    run(mine);
    for id in tids {
        detsim::join(id);
    }
    // whatever is still pending is dropped (cancelled) here, on the main thread under the same default
    let g = d.as_ref().map(dispatch::set_default);
    let mut ts = tasks.lock().unwrap();
    let mut outs = vec![];
    for t in ts.iter_mut() {
        if let Some(f) = t.fut.take() {
            drop(f);
        }
        t.out.window.1 = detsim::stamp();
        finish_outcome(&t.fx, &mut t.out);
        outs.push(t.out.clone());
    }
    drop(g);
    outs
}

impl Engine for InstrEngine {
    fn name(&self) -> &'static str {
        "instr-sim"
    }
    fn props(&self) -> &'static [&'static str] {
        &["C17"]
    }
    fn modes(&self, _p: &str) -> Vec<String> {
        let mut m = vec!["must".to_string()];
        if crate::driver::finding_open("F22") {
            m.push("probe:F22".into());
        }
        m
    }
    fn classify_known(&self, plan: &Value, res: &RunResult) -> Option<String> {
        if plan["mode"] == "probe:F22" && crate::driver::finding_open("F22") && res.class == "span-fields" && plan["cfg"]["attrs"].as_str().map_or(false, |a| a.contains("skip_all")) {
            return Some("F22 #[instrument(skip_all)] is accepted with only a warning and ignored: every argument is recorded".into());
        }
        None
    }
    fn rule(&self, _p: &str) -> String {
        format!("corpus of {} twin pairs generated at build time from VERIF_CORPUS_SEED={} (sync / async / async-trait-style boxed / methods; by-value, by-reference, destructured, generic and impl-Trait arguments; unit / value / Result / impl Display returns with early return, `?` and panic; attribute arguments name, level, target, parent, skip, skip_all, fields, ret/err modes and levels); per run one pair with seeded inputs under a recording collector, none, or a level-filtered one, sync twins called inside or outside an entered span, async twins polled by a seeded executor (interleaved with a second instrumented future, migrated between two threads, cancelled, panicking); non-trivial = the run exercised an early return, an error, a panic, a cancellation or a cross-thread poll, under the recording collector; distinct = distinct plan digest", PAIRS.len(), corpus::CORPUS_SEED)
    }
    fn components(&self) -> Value {
        json!({"real": ["tracing-attributes #[instrument] expansion (compiled into the corpus)", "tracing::Span / Instrumented", "tracing macros"], "stub": ["collector (recording, with typed field capture)", "executor (seeded poll / migrate / cancel with a no-op waker)"], "corpus_pairs": PAIRS.len(), "corpus_seed": corpus::CORPUS_SEED})
    }
    fn generate(&self, g: &GenCtx) -> Value {
        let mut rng = Rng::new(g.seed);
        // `skip_all` is not implemented by this tree's #[instrument] (finding F22): pairs using it are driven only
        // by the finding-probe configuration while the finding is open
        let f22_open = crate::driver::finding_open("F22");
        let cands: Vec<usize> = (0..PAIRS.len()).filter(|i| if g.mode == "probe:F22" { PAIRS[*i].attrs.contains("skip_all") } else { !(f22_open && PAIRS[*i].attrs.contains("skip_all")) }).collect();
        let pair = if cands.is_empty() { 0 } else { *rng.pick(&cands) };
        let p = &PAIRS[pair];
        let gen_inp = |rng: &mut Rng| json!({"aid": rng.range(1, 9), "b": *rng.pick(&[0u64, 1, 2, 3, 4, 5, 8, 9, 10, 14, 16, 27, 38, 49]), "c": *rng.pick(&["", "abc", "with space", "q\"uote"]), "x": rng.below(5), "y": rng.below(5), "k": rng.below(4)});
        let collector = *rng.pick(&["rec", "rec", "rec", "none", "off", "low"]);
        let mut steps = vec![];
        let mut second = Value::Null;
        let nthreads = if p.is_async { rng.range(1, 2) } else { 1 };
        if p.is_async {
            // a second instrumented async pair to interleave with
            if rng.chance(1, 2) {
                let cands: Vec<usize> = (0..PAIRS.len()).filter(|i| PAIRS[*i].is_async && *i != pair).collect();
                if !cands.is_empty() {
                    second = json!({"pair": *rng.pick(&cands), "inputs": gen_inp(&mut rng)});
                }
            }
            let n = rng.range(1, 9);
            for _ in 0..n {
                let task = if second.is_null() { 0 } else { rng.below(2) };
                let op = if rng.chance(1, 10) { "cancel" } else { "poll" };
                steps.push(json!({"t": rng.below(nthreads), "op": op, "task": task}));
            }
        }
        let sched = Sched::op_order(rng.next_u64());
        json!({"engine": "instr", "prop": g.prop, "mode": g.mode,
               "cfg": {"pair": pair, "attrs": p.attrs, "inputs": gen_inp(&mut rng), "collector": collector, "outer_span": rng.chance(1, 2), "second": second, "threads": nthreads, "corpus_seed": corpus::CORPUS_SEED},
               "steps": steps, "sched": serde_json::to_value(&sched).unwrap()})
    }

    fn execute(&self, plan: &Value) -> RunResult {
        let sched = plan_sched(plan);
        let cfg = plan["cfg"].clone();
        let steps: Vec<Value> = plan["steps"].as_array().cloned().unwrap_or_default();
        std::panic::set_hook(Box::new(|_| {}));
        let body = move || {
            if cfg["corpus_seed"].as_u64() != Some(corpus::CORPUS_SEED) {
                violation("harness-corpus-mismatch", format!("this plan was made for corpus seed {} but the binary contains corpus seed {}", cfg["corpus_seed"], corpus::CORPUS_SEED));
                return;
            }
            let pi = cfg["pair"].as_u64().unwrap_or(0) as usize % PAIRS.len();
            let pair: &'static Pair = &PAIRS[pi];
            let inp = inputs_of(&cfg["inputs"]);
            let coll = cfg["collector"].as_str().unwrap_or("rec");
            let max = match coll {
                "off" => 0,
                "low" => 1,
                _ => 5,
            };
            let d = if coll == "none" { None } else { Some(Dispatch::new(AttrCollect { next: AtomicU64::new(1), max })) };
            let nthreads = cfg["threads"].as_u64().unwrap_or(1).max(1) as usize;
            let (plain, inst, outer_id) = if !pair.is_async {
                let _g = d.as_ref().map(dispatch::set_default);
                let outer = if cfg["outer_span"].as_bool().unwrap_or(false) { Some(tracing::span!(target: "outer", tracing::Level::ERROR, "outer").entered()) } else { None };
                let outer_id = outer.as_ref().and_then(|o| o.id()).map(|i| i.into_u64()).unwrap_or(0);
                let plain = run_sync(pair, &inp, false);
                let inst = run_sync(pair, &inp, true);
                drop(outer);
                (plain, inst, outer_id)
            } else {
                let second = &cfg["second"];
                let mut ps_plain = vec![(pair, inp.clone(), false)];
                let mut ps_inst = vec![(pair, inp.clone(), true)];
                if second.is_object() {
                    let sp: &'static Pair = &PAIRS[second["pair"].as_u64().unwrap_or(0) as usize % PAIRS.len()];
                    let si = inputs_of(&second["inputs"]);
                    ps_plain.push((sp, si.clone(), true));
                    ps_inst.push((sp, si, true));
                }
                let plain = run_async(ps_plain, &steps, d.clone(), nthreads).remove(0);
                let inst = run_async(ps_inst, &steps, d.clone(), nthreads).remove(0);
                (plain, inst, 0)
            };
            oracle(pair, &inp, coll, &plain, &inst, outer_id);
        };
        simulate(&plan.to_string(), &sched, None, body, || {})
    }
}

fn oracle(pair: &Pair, inp: &Inputs, coll: &str, plain: &Outcome, inst: &Outcome, outer_id: u64) {
    // 1. twin equality
    if plain.ret != inst.ret {
        violation("return-differs", format!("pair {} [{}] inputs {:?}: plain returned {:?}, instrumented {:?}", pair.id, pair.attrs, inp, plain.ret, inst.ret));
        return;
    }
    if plain.panic != inst.panic {
        violation("panic-differs", format!("pair {} [{}]: plain panic {:?}, instrumented {:?}", pair.id, pair.attrs, plain.panic, inst.panic));
        return;
    }
    if plain.log != inst.log {
        violation("effects-differ", format!("pair {} [{}] inputs {:?}: effect logs differ: plain {:?} vs instrumented {:?}", pair.id, pair.attrs, inp, plain.log, inst.log));
        return;
    }
    if (plain.clones, plain.drops) != (inst.clones, inst.drops) {
        violation("argument-handling-differs", format!("pair {} [{}]: tracked argument cloned/dropped {}/{} times in the plain twin and {}/{} times in the instrumented one", pair.id, pair.attrs, plain.clones, plain.drops, inst.clones, inst.drops));
        return;
    }
    let log = RLOG.lock().unwrap().clone();
    let in_inst: Vec<&R> = log.iter().filter(|r| r.stamp > inst.window.0 && r.stamp < inst.window.1 && r.target != "outer").collect();
    // records produced by the second (interleaved) task are told apart by their span name/target: keep only this pair's
    let span_enabled = coll == "rec" || (coll == "low" && pair.level <= 1);
    let mine_spans: Vec<&&R> = in_inst.iter().filter(|r| r.kind == "new_span" && r.name == pair.span_name && r.target == pair.target).collect();
    if coll == "none" || !span_enabled {
        if !mine_spans.is_empty() {
            violation("disabled-touched-collector", format!("pair {} [{}]: the span is filtered out (collector {}) but {} spans were created", pair.id, pair.attrs, coll, mine_spans.len()));
        }
        return;
    }
    let started = inst.polls > 0 || !pair.is_async;
    if mine_spans.len() > 1 || (started && mine_spans.len() != 1) {
        // another pair in the corpus may share name+target only if it is the same pair interleaved as second task
        violation("span-count", format!("pair {} [{}]: one call created {} spans named {:?}", pair.id, pair.attrs, mine_spans.len(), pair.span_name));
        return;
    }
    if mine_spans.is_empty() {
        return;
    }
    let sp = mine_spans[0];
    if sp.level != pair.level {
        violation("span-metadata", format!("pair {} [{}]: span level {} expected {}", pair.id, pair.attrs, sp.level, pair.level));
        return;
    }
    let want_parent = if pair.parent_none { 0 } else { outer_id };
    if !pair.is_async && sp.parent != want_parent {
        violation("span-parent", format!("pair {} [{}]: span parent {} expected {}", pair.id, pair.attrs, sp.parent, want_parent));
        return;
    }
    let mut got_f = sp.fields.clone();
    got_f.sort();
    let mut want_f = (pair.expected_fields)(inp);
    want_f.sort();
    if got_f != want_f {
        violation("span-fields", format!("pair {} [{}] inputs {:?}: span fields {:?}, expected {:?}", pair.id, pair.attrs, inp, got_f, want_f));
        return;
    }
    // 2. the body (each poll of it) runs inside that span and nothing else does
    for (step, cur) in &inst.observed {
        if *cur != sp.id {
            violation("body-outside-span", format!("pair {} [{}]: step {:?} observed current span {} but the call's span is {}", pair.id, pair.attrs, step, cur, sp.id));
            return;
        }
    }
    // an async body owns its arguments: whether it runs to completion, panics or is dropped half-way (the wrapper
    // enters the span for the drop of the body), every tracked value it holds is dropped inside the call's span
    if pair.is_async {
        if let Some(bad) = inst.drop_spans.iter().find(|c| **c != sp.id) {
            violation("body-outside-span", format!("pair {} [{}]: a value owned by the async body was dropped with current span {} but the call's span is {} (completed: {}, polls: {})", pair.id, pair.attrs, bad, sp.id, inst.completed, inst.polls));
            return;
        }
    }
    if inst.between.iter().any(|c| *c == sp.id) {
        violation("span-leaks-outside-body", format!("pair {} [{}]: the executor observed the call's span as current between polls", pair.id, pair.attrs));
        return;
    }
    // 3. protocol: enters/exits balanced per thread, one close, nothing after it
    let mut bal: HashMap<usize, i64> = HashMap::new();
    let mut closed = false;
    let mut handles = 1i64;
    for r in in_inst.iter().filter(|r| r.id == sp.id && r.kind != "new_span") {
        if closed {
            violation("use-after-close", format!("pair {} [{}]: {} on the span after its last close notification", pair.id, pair.attrs, r.kind));
            return;
        }
        match r.kind {
            "enter" => *bal.entry(r.thread).or_insert(0) += 1,
            "exit" => {
                let e = bal.entry(r.thread).or_insert(0);
                *e -= 1;
                if *e < 0 {
                    violation("exit-without-enter", format!("pair {} [{}]: exit without enter on thread {}", pair.id, pair.attrs, r.thread));
                    return;
                }
            }
            "clone_span" => handles += 1,
            "try_close" => {
                handles -= 1;
                if handles == 0 {
                    closed = true;
                }
            }
            _ => {}
        }
    }
    if bal.values().any(|v| *v != 0) || !closed {
        violation("unbalanced-protocol", format!("pair {} [{}]: enter/exit balance {:?}, closed={}", pair.id, pair.attrs, bal, closed));
        return;
    }
    // 4. ret / err events: inside the span, at the configured level, carrying the value
    if inst.completed {
        let ret_s = inst.ret.clone().unwrap_or_default();
        let events: Vec<&&R> = in_inst.iter().filter(|r| r.kind == "event" && r.target == pair.target && r.fields.iter().any(|f| f.0 == "return" || f.0 == "error")).filter(|r| r.parent == sp.id || true).collect();
        let mine: Vec<&&&R> = events.iter().filter(|r| r.stamp > sp.stamp).collect();
        let (want_field, want_val, want_level): (Option<&str>, String, u8) = if pair.ret_shape == 2 && pair.err_mode == 0 {
            // `ret` without `err` on a Result: the whole Result is the returned value
            if pair.ret_mode != 0 {
                (Some("return"), ret_s.clone(), pair.ret_level)
            } else {
                (None, String::new(), 0)
            }
        } else if pair.ret_shape == 2 {
            if let Some(inner) = ret_s.strip_prefix("Ok(").and_then(|s| s.strip_suffix(')')) {
                if pair.ret_mode != 0 {
                    (Some("return"), inner.to_string(), pair.ret_level)
                } else {
                    (None, String::new(), 0)
                }
            } else if let Some(inner) = ret_s.strip_prefix("Err(MyErr(").and_then(|s| s.strip_suffix("))")) {
                match pair.err_mode {
                    0 => (None, String::new(), 0),
                    1 => (Some("error"), format!("myerr#{inner}"), pair.err_level),
                    _ => (Some("error"), format!("MyErr({inner})"), pair.err_level),
                }
            } else {
                (None, String::new(), 0)
            }
        } else if pair.ret_mode != 0 {
            (Some("return"), ret_s.clone(), pair.ret_level)
        } else {
            (None, String::new(), 0)
        };
        // the collector's own level filter applies to the ret/err event as to any event
        let max = if coll == "low" { 1 } else { 5 };
        let (want_field, want_val, want_level) = if want_level > max { (None, String::new(), 0) } else { (want_field, want_val, want_level) };
        // events of this call = those whose contextual parent is this call's span
        let ours: Vec<&&&&R> = mine.iter().filter(|r| r.parent == sp.id).collect();
        let stray: Vec<&&&&R> = mine.iter().filter(|r| r.parent != sp.id && r.thread == sp.thread && !pair.is_async).collect();
        match want_field {
            None => {
                if !ours.is_empty() {
                    violation("ret-err-event-unexpected", format!("pair {} [{}]: return value {:?} but events {:?}", pair.id, pair.attrs, ret_s, ours.iter().map(|r| &r.fields).collect::<Vec<_>>()));
                    return;
                }
            }
            Some(f) => {
                if ours.len() != 1 {
                    let class = if !stray.is_empty() { "ret-err-event-outside-span" } else { "ret-err-event-missing" };
                    violation(class, format!("pair {} [{}]: returned {:?}; expected exactly one `{}` event inside the span, found {} (and {} outside it)", pair.id, pair.attrs, ret_s, f, ours.len(), stray.len()));
                    return;
                }
                let e = ours[0];
                let val = e.fields.iter().find(|x| x.0 == f).map(|x| x.1.get(2..).unwrap_or("").to_string());
                if val.as_deref() != Some(want_val.as_str()) || e.level != want_level {
                    violation("ret-err-event-differs", format!("pair {} [{}]: `{}` event carries {:?} at level {}, expected {:?} at level {}", pair.id, pair.attrs, f, val, e.level, want_val, want_level));
                    return;
                }
            }
        }
    }
    let interesting = inst.log.iter().any(|s| s.ends_with(".early")) || inst.panic.is_some() || inst.ret.as_deref().map_or(false, |r| r.starts_with("Err")) || (pair.is_async && !inst.completed) || inst.between.len() > 2;
    if interesting {
        nontrivial();
    }
}
