//! Recording collector: a `Collect` implementation with a small, self-consistent filter (A2 in
//! DESIGN.md) that logs every trait call with thread and global stamp.
use crate::fw::ev;
use crate::sites;
use serde_json::Value;
use std::cell::RefCell;
use std::collections::HashMap;
use std::sync::atomic::{AtomicBool, AtomicU64, Ordering};
use std::sync::Mutex;
use tracing_core::span::{Attributes, Current, Id, Record};
use tracing_core::{Collect, Event, Interest, LevelFilter, Metadata};

#[derive(Clone, Debug)]
pub struct Rec {
    pub stamp: u64,
    pub thread: usize,
    pub k: usize,
    pub kind: &'static str,
    /// pool site index (level x target), -1 if the metadata is not a pool site
    pub site: i32,
    /// 0 event, 1 span, 2 hint
    pub skind: u8,
    pub name: &'static str,
    pub id: u64,
    pub id2: u64,
    pub val: u64,
    pub flag: bool,
}

pub static LOG: Mutex<Vec<Rec>> = Mutex::new(Vec::new());

pub fn take_log() -> Vec<Rec> {
    std::mem::take(&mut *LOG.lock().unwrap())
}
pub fn snapshot_log() -> Vec<Rec> {
    LOG.lock().unwrap().clone()
}

#[derive(Clone, Debug)]
pub struct FilterSpec {
    pub thr: u8,
    pub targets: u8,
    /// "static" | "dynamic" | "mixed"
    pub mode: u8,
    pub dyn_targets: u8,
    pub thr2: u8,
    pub targets2: u8,
    /// 0 none, 1 exact upper bound, 2 one level looser
    pub hint: u8,
}

impl FilterSpec {
    pub fn from_json(v: &Value) -> FilterSpec {
        FilterSpec {
            thr: v["thr"].as_u64().unwrap_or(5) as u8,
            targets: v["targets"].as_u64().unwrap_or(15) as u8,
            mode: v["mode"].as_u64().unwrap_or(0) as u8,
            dyn_targets: v["dyn_targets"].as_u64().unwrap_or(0) as u8,
            thr2: v["thr2"].as_u64().unwrap_or(5) as u8,
            targets2: v["targets2"].as_u64().unwrap_or(15) as u8,
            hint: v["hint"].as_u64().unwrap_or(0) as u8,
        }
    }
    pub fn accept_all() -> FilterSpec {
        FilterSpec { thr: 5, targets: 15, mode: 0, dyn_targets: 0, thr2: 5, targets2: 15, hint: 0 }
    }
    pub fn is_dynamic_for(&self, target: u8) -> bool {
        match self.mode {
            1 => true,
            2 => self.dyn_targets & (1 << target) != 0,
            _ => false,
        }
    }
    /// mode 3: a *reloadable* filter - static answers (always/never) from the current of two configurations; whoever
    /// flips it rebuilds the interest cache afterwards, and its hint follows the configuration in force
    pub fn is_reloadable(&self) -> bool {
        self.mode == 3
    }
    /// The filter's verdict for (level 1..5, target index) in the given flip state.
    pub fn accept(&self, level: u8, target: u8, flipped: bool) -> bool {
        let (thr, tg) = if flipped && (self.is_reloadable() || self.is_dynamic_for(target)) { (self.thr2, self.targets2) } else { (self.thr, self.targets) };
        level <= thr && tg & (1 << target) != 0
    }
    /// most verbose level accepted in one flip state
    pub fn max_accept_in(&self, flipped: bool) -> u8 {
        let mut m = 0;
        for t in 0..4u8 {
            for l in 1..=5u8 {
                if self.accept(l, t, flipped) {
                    m = m.max(l);
                }
            }
        }
        m
    }
    /// the level a live collector with this filter needs from the global maximum in the given state
    pub fn need_in(&self, flipped: bool) -> u8 {
        if self.is_reloadable() {
            self.max_accept_in(flipped)
        } else {
            self.max_accept()
        }
    }
    pub fn hint_level_in(&self, flipped: bool) -> Option<u8> {
        if !self.is_reloadable() {
            return self.hint_level();
        }
        match self.hint {
            0 => None,
            1 => Some(self.max_accept_in(flipped)),
            _ => Some((self.max_accept_in(flipped) + 1).min(5)),
        }
    }
    /// most verbose level this filter can ever accept (0 = nothing)
    pub fn max_accept(&self) -> u8 {
        let mut m = 0;
        for t in 0..4u8 {
            for l in 1..=5u8 {
                if self.accept(l, t, false) || self.accept(l, t, true) {
                    m = m.max(l);
                }
            }
        }
        m
    }
    pub fn hint_level(&self) -> Option<u8> {
        match self.hint {
            0 => None,
            1 => Some(self.max_accept()),
            _ => Some((self.max_accept() + 1).min(5)),
        }
    }
}

fn lf(n: u8) -> LevelFilter {
    match n {
        0 => LevelFilter::OFF,
        1 => LevelFilter::ERROR,
        2 => LevelFilter::WARN,
        3 => LevelFilter::INFO,
        4 => LevelFilter::DEBUG,
        _ => LevelFilter::TRACE,
    }
}

pub struct RecCollect {
    pub k: usize,
    pub filter: FilterSpec,
    pub flipped: AtomicBool,
    next_id: AtomicU64,
    /// when true, `event`/`new_span` self-check the filter and flag spurious deliveries immediately
    pub self_check: bool,
    metas: Mutex<HashMap<u64, &'static Metadata<'static>>>,
    /// when true, `clone_span` hands out a fresh id per handle (a legal, pointer-like id scheme): every id
    /// issued by `new_span` or `clone_span` then stands for exactly one handle
    pub handle_ids: bool,
    /// per-handle id -> the id `new_span` returned for that span
    aliases: Mutex<HashMap<u64, u64>>,
    /// when true the collector finishes configuring itself in `on_register_dispatch` (the hook a `Dispatch` calls
    /// before it asks the collector anything): until then it rejects everything and hints OFF
    pub late_init: bool,
    inited: AtomicBool,
    /// reentrancy: when the collector itself is dropped (its last `Dispatch` went away) it emits one farewell event
    /// at this pool site, carrying `7_000_000 + k` (-1: it does not)
    pub emit_on_drop: i64,
    /// reentrancy: inside its `event` callback the collector itself emits this many events (values
    /// 9_000_000 + k*100 + i, at pool site 8) - a collector that logs through tracing
    pub nested: u8,
}

impl Drop for RecCollect {
    fn drop(&mut self) {
        if self.emit_on_drop >= 0 {
            crate::fw::fault("collector_emits_from_its_destructor");
            sites::emit_event(self.emit_on_drop as usize, 7_000_000 + self.k as u64);
        }
    }
}

thread_local! {
    /// fault injection: the next `event`/`new_span` callback on this thread panics (after it has been logged)
    pub static PANIC_NEXT_CALLBACK: std::cell::Cell<bool> = std::cell::Cell::new(false);
    static IN_CALLBACK: std::cell::Cell<bool> = std::cell::Cell::new(false);
    /// fault injection: the next `exit` on this thread panics (after it has been logged)
    pub static PANIC_NEXT_EXIT: std::cell::Cell<bool> = std::cell::Cell::new(false);
    /// fault injection: the next `register_callsite` on this thread panics (after it has been logged)
    pub static PANIC_NEXT_REGISTER: std::cell::Cell<bool> = std::cell::Cell::new(false);
    static STACKS: RefCell<HashMap<usize, Vec<(u64, &'static Metadata<'static>)>>> = RefCell::new(HashMap::new());
}

/// metadata -> (site, skind, name)
pub fn site_of(meta: &Metadata<'_>) -> (i32, u8, &'static str) {
    let lvl = sites::level_num(meta.level());
    let skind = if meta.is_span() {
        1
    } else if meta.is_event() {
        0
    } else {
        2
    };
    let name: &'static str = match meta.name() {
        "pool_span" => "pool_span",
        "pool_root" => "pool_root",
        "pool_child" => "pool_child",
        _ => "",
    };
    match sites::target_idx(meta.target()) {
        Some(t) => (((lvl - 1) * 4 + t) as i32, skind, name),
        None => (-1, skind, name),
    }
}

struct ValVisitor {
    val: u64,
}
impl tracing_core::field::Visit for ValVisitor {
    fn record_u64(&mut self, field: &tracing_core::field::Field, value: u64) {
        if field.name() == "val" || field.name() == "late" {
            self.val = value;
        }
    }
    fn record_debug(&mut self, _f: &tracing_core::field::Field, _v: &dyn std::fmt::Debug) {}
}

impl RecCollect {
    pub fn new(k: usize, filter: FilterSpec) -> Self {
        RecCollect { k, filter, flipped: AtomicBool::new(false), next_id: AtomicU64::new(1 + k as u64 * 1_000_000), self_check: true, metas: Mutex::new(HashMap::new()), handle_ids: false, aliases: Mutex::new(HashMap::new()), late_init: false, inited: AtomicBool::new(false), emit_on_drop: -1, nested: 0 }
    }
    fn log(&self, kind: &'static str, meta: Option<&Metadata<'_>>, id: u64, id2: u64, val: u64, flag: bool) {
        let (site, skind, name) = meta.map(site_of).unwrap_or((-1, 9, ""));
        let r = Rec { stamp: detsim::stamp(), thread: detsim::current(), k: self.k, kind, site, skind, name, id, id2, val, flag };
        ev(format!("c{} t{} {} s{} k{} id{} {} v{} {}", r.k, r.thread, kind, site, skind, id, id2, val, flag));
        LOG.lock().unwrap().push(r);
    }
    pub fn with_nested(mut self, n: u8) -> Self {
        self.nested = n;
        self
    }
    pub fn with_emit_on_drop(mut self, site: usize) -> Self {
        self.emit_on_drop = site as i64;
        self
    }
    pub fn with_late_init(mut self) -> Self {
        self.late_init = true;
        self
    }
    fn unconfigured(&self) -> bool {
        self.late_init && !self.inited.load(Ordering::SeqCst)
    }
    pub fn with_handle_ids(mut self) -> Self {
        self.handle_ids = true;
        self
    }
    fn root(&self, id: u64) -> u64 {
        self.aliases.lock().unwrap().get(&id).copied().unwrap_or(id)
    }
    pub fn accepts_meta(&self, meta: &Metadata<'_>) -> bool {
        let lvl = sites::level_num(meta.level());
        if self.unconfigured() {
            return false;
        }
        match sites::target_idx(meta.target()) {
            Some(t) => self.filter.accept(lvl, t, self.flipped.load(Ordering::SeqCst)),
            None => false,
        }
    }
}

impl Collect for RecCollect {
    fn register_callsite(&self, meta: &'static Metadata<'static>) -> Interest {
        let lvl = sites::level_num(meta.level());
        let i = match sites::target_idx(meta.target()) {
            _ if self.unconfigured() => Interest::never(),
            None => Interest::never(),
            Some(t) => {
                if self.filter.is_dynamic_for(t) {
                    Interest::sometimes()
                } else if self.filter.accept(lvl, t, self.flipped.load(Ordering::SeqCst)) {
                    Interest::always()
                } else {
                    Interest::never()
                }
            }
        };
        self.log("register_callsite", Some(meta), 0, 0, if i.is_always() { 2 } else if i.is_sometimes() { 1 } else { 0 }, true);
        if PANIC_NEXT_REGISTER.with(|c| c.replace(false)) {
            crate::fw::fault("panic_in_register_callsite");
            panic!("injected panic inside Collect::register_callsite");
        }
        i
    }
    fn enabled(&self, meta: &Metadata<'_>) -> bool {
        let r = self.accepts_meta(meta);
        self.log("enabled", Some(meta), 0, 0, 0, r);
        r
    }
    fn max_level_hint(&self) -> Option<LevelFilter> {
        if self.unconfigured() {
            return Some(LevelFilter::OFF);
        }
        self.filter.hint_level_in(self.flipped.load(Ordering::SeqCst)).map(lf)
    }
    fn new_span(&self, attrs: &Attributes<'_>) -> Id {
        let id = self.next_id.fetch_add(1, Ordering::SeqCst);
        self.metas.lock().unwrap().insert(id, attrs.metadata());
        let mut v = ValVisitor { val: 0 };
        attrs.record(&mut v);
        let parent = if attrs.is_root() {
            0
        } else if attrs.is_contextual() {
            // (`try_with`: a callback may run from a thread-local destructor, after this thread-local is gone)
            STACKS.try_with(|s| s.borrow().get(&self.k).and_then(|v| v.last().map(|x| x.0)).unwrap_or(0)).unwrap_or(0)
        } else {
            attrs.parent().map(|p| p.into_u64()).unwrap_or(0)
        };
        self.log("new_span", Some(attrs.metadata()), id, parent, v.val, self.accepts_meta(attrs.metadata()));
        if PANIC_NEXT_CALLBACK.with(|c| c.replace(false)) {
            crate::fw::fault("panic_in_collector_callback");
            panic!("injected panic inside Collect::new_span");
        }
        Id::from_u64(id)
    }
    fn record(&self, span: &Id, values: &Record<'_>) {
        let mut v = ValVisitor { val: 0 };
        values.record(&mut v);
        self.log("record", None, span.into_u64(), 0, v.val, true);
    }
    fn record_follows_from(&self, span: &Id, follows: &Id) {
        self.log("follows_from", None, span.into_u64(), follows.into_u64(), 0, true);
    }
    fn event(&self, event: &Event<'_>) {
        let mut v = ValVisitor { val: 0 };
        event.record(&mut v);
        let parent = if event.is_root() {
            0
        } else if event.is_contextual() {
            // (`try_with`: a callback may run from a thread-local destructor, after this thread-local is gone)
            STACKS.try_with(|s| s.borrow().get(&self.k).and_then(|v| v.last().map(|x| x.0)).unwrap_or(0)).unwrap_or(0)
        } else {
            event.parent().map(|p| p.into_u64()).unwrap_or(0)
        };
        self.log("event", Some(event.metadata()), 0, parent, v.val, self.accepts_meta(event.metadata()));
        if self.nested > 0 && IN_CALLBACK.with(|c| c.replace(true)) == false {
            crate::fw::fault("collector_emits_inside_its_callback");
            for i in 0..self.nested {
                sites::emit_event(8, 9_000_000 + self.k as u64 * 100 + i as u64);
            }
            IN_CALLBACK.with(|c| c.set(false));
        }
        if PANIC_NEXT_CALLBACK.with(|c| c.replace(false)) {
            crate::fw::fault("panic_in_collector_callback");
            panic!("injected panic inside Collect::event");
        }
    }
    fn enter(&self, span: &Id) {
        // metadata is not available here; the stack keeps ids only (metadata slot unused)
        let meta = self.metas.lock().unwrap().get(&self.root(span.into_u64())).copied().unwrap_or(&NULL_META);
        let _ = STACKS.try_with(|s| s.borrow_mut().entry(self.k).or_default().push((span.into_u64(), meta)));
        self.log("enter", None, span.into_u64(), 0, 0, true);
    }
    fn exit(&self, span: &Id) {
        let _ = STACKS.try_with(|s| {
            if let Some(v) = s.borrow_mut().get_mut(&self.k) {
                if let Some(pos) = v.iter().rposition(|x| x.0 == span.into_u64()) {
                    v.remove(pos);
                }
            }
        });
        self.log("exit", None, span.into_u64(), 0, 0, true);
        if PANIC_NEXT_EXIT.with(|c| c.replace(false)) {
            crate::fw::fault("panic_in_collector_exit");
            panic!("injected panic inside Collect::exit");
        }
    }
    fn clone_span(&self, id: &Id) -> Id {
        if self.handle_ids {
            let new = self.next_id.fetch_add(1, Ordering::SeqCst);
            let root = self.root(id.into_u64());
            self.aliases.lock().unwrap().insert(new, root);
            self.log("clone_span", None, id.into_u64(), new, 0, true);
            return Id::from_u64(new);
        }
        self.log("clone_span", None, id.into_u64(), 0, 0, true);
        id.clone()
    }
    fn try_close(&self, id: Id) -> bool {
        self.log("try_close", None, id.into_u64(), 0, 0, true);
        false
    }
    fn current_span(&self) -> Current {
        let top = STACKS.try_with(|s| s.borrow().get(&self.k).and_then(|v| v.last().copied())).ok().flatten();
        match top {
            Some((id, meta)) => Current::new(Id::from_u64(id), meta),
            None => Current::none(),
        }
    }
    fn on_register_dispatch(&self, _d: &tracing_core::Dispatch) {
        self.inited.store(true, Ordering::SeqCst);
        self.log("on_register_dispatch", None, 0, 0, 0, true);
    }
}

struct NullCs;
impl tracing_core::callsite::Callsite for NullCs {
    fn set_interest(&self, _: Interest) {}
    fn metadata(&self) -> &Metadata<'_> {
        &NULL_META
    }
}
static NULL_CS: NullCs = NullCs;
static NULL_META: Metadata<'static> = tracing_core::metadata! {
    name: "rec_null",
    target: "rec_null",
    level: tracing_core::Level::TRACE,
    fields: &[],
    callsite: &NULL_CS,
    kind: tracing_core::metadata::Kind::SPAN,
};
