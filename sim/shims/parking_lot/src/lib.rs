//! Shim for `parking_lot`: locks whose acquisition is *cooperative* — a thread never really blocks
//! while holding the simulator's baton. `read`/`write`/`lock` yield first, then try; on failure the
//! thread is marked waiting and re-tests when rescheduled. Guards announce progress on release and
//! yield afterwards (never while unwinding). After a successful blocking acquisition there is one more
//! preemption point *while the lock is held*, so that other threads can see the lock as taken. No poisoning, as in parking_lot.
use std::ops::{Deref, DerefMut};
use std::sync as s;

pub struct RwLock<T: ?Sized> {
    inner: s::RwLock<T>,
}
pub struct RwLockReadGuard<'a, T: ?Sized>(Option<s::RwLockReadGuard<'a, T>>);
pub struct RwLockWriteGuard<'a, T: ?Sized>(Option<s::RwLockWriteGuard<'a, T>>);

fn unpoison_try<G>(r: Result<G, s::TryLockError<G>>) -> Option<G> {
    match r {
        Ok(g) => Some(g),
        Err(s::TryLockError::Poisoned(p)) => Some(p.into_inner()),
        Err(s::TryLockError::WouldBlock) => None,
    }
}

impl<T> RwLock<T> {
    pub const fn new(v: T) -> Self { RwLock { inner: s::RwLock::new(v) } }
    pub fn into_inner(self) -> T { self.inner.into_inner().unwrap_or_else(|p| p.into_inner()) }
}
impl<T: ?Sized> RwLock<T> {
    pub fn get_mut(&mut self) -> &mut T { self.inner.get_mut().unwrap_or_else(|p| p.into_inner()) }
    pub fn read(&self) -> RwLockReadGuard<'_, T> {
        detsim::yield_point("rwlock:read");
        let mut got = None;
        detsim::block_until("rwlock:read:wait", None, || { got = unpoison_try(self.inner.try_read()); got.is_some() });
        // a preemption point while the lock is held: other threads can observe the lock as taken (their
        // try_* fail, their blocking acquisitions wait) even if the critical section has no yield point of its own
        detsim::yield_point("rwlock:read:held");
        RwLockReadGuard(got)
    }
    pub fn write(&self) -> RwLockWriteGuard<'_, T> {
        detsim::yield_point("rwlock:write");
        let mut got = None;
        detsim::block_until("rwlock:write:wait", None, || { got = unpoison_try(self.inner.try_write()); got.is_some() });
        detsim::yield_point("rwlock:write:held");
        RwLockWriteGuard(got)
    }
    pub fn try_read(&self) -> Option<RwLockReadGuard<'_, T>> {
        detsim::yield_point("rwlock:try_read");
        unpoison_try(self.inner.try_read()).map(|g| RwLockReadGuard(Some(g)))
    }
    pub fn try_write(&self) -> Option<RwLockWriteGuard<'_, T>> {
        detsim::yield_point("rwlock:try_write");
        unpoison_try(self.inner.try_write()).map(|g| RwLockWriteGuard(Some(g)))
    }
}
impl<T: Default> Default for RwLock<T> { fn default() -> Self { Self::new(T::default()) } }
impl<T: ?Sized + std::fmt::Debug> std::fmt::Debug for RwLock<T> {
    fn fmt(&self, f: &mut std::fmt::Formatter<'_>) -> std::fmt::Result {
        match unpoison_try(self.inner.try_read()) {
            Some(g) => f.debug_struct("RwLock").field("data", &&*g).finish(),
            None => f.debug_struct("RwLock").field("data", &"<locked>").finish(),
        }
    }
}
impl<T: ?Sized> Deref for RwLockReadGuard<'_, T> { type Target = T; fn deref(&self) -> &T { self.0.as_ref().unwrap() } }
impl<T: ?Sized> Deref for RwLockWriteGuard<'_, T> { type Target = T; fn deref(&self) -> &T { self.0.as_ref().unwrap() } }
impl<T: ?Sized> DerefMut for RwLockWriteGuard<'_, T> { fn deref_mut(&mut self) -> &mut T { self.0.as_mut().unwrap() } }
impl<T: ?Sized> Drop for RwLockReadGuard<'_, T> {
    fn drop(&mut self) { self.0.take(); detsim::progress(); detsim::yield_point("rwlock:read:release"); }
}
impl<T: ?Sized> Drop for RwLockWriteGuard<'_, T> {
    fn drop(&mut self) { self.0.take(); detsim::progress(); detsim::yield_point("rwlock:write:release"); }
}
impl<T: ?Sized + std::fmt::Debug> std::fmt::Debug for RwLockReadGuard<'_, T> {
    fn fmt(&self, f: &mut std::fmt::Formatter<'_>) -> std::fmt::Result { std::fmt::Debug::fmt(&**self, f) }
}
impl<T: ?Sized + std::fmt::Debug> std::fmt::Debug for RwLockWriteGuard<'_, T> {
    fn fmt(&self, f: &mut std::fmt::Formatter<'_>) -> std::fmt::Result { std::fmt::Debug::fmt(&**self, f) }
}

pub struct Mutex<T: ?Sized> {
    inner: s::Mutex<T>,
}
pub struct MutexGuard<'a, T: ?Sized>(Option<s::MutexGuard<'a, T>>);
impl<T> Mutex<T> {
    pub const fn new(v: T) -> Self { Mutex { inner: s::Mutex::new(v) } }
    pub fn into_inner(self) -> T { self.inner.into_inner().unwrap_or_else(|p| p.into_inner()) }
}
impl<T: ?Sized> Mutex<T> {
    pub fn get_mut(&mut self) -> &mut T { self.inner.get_mut().unwrap_or_else(|p| p.into_inner()) }
    pub fn lock(&self) -> MutexGuard<'_, T> {
        detsim::yield_point("mutex:lock");
        let mut got = None;
        detsim::block_until("mutex:lock:wait", None, || { got = unpoison_try(self.inner.try_lock()); got.is_some() });
        detsim::yield_point("mutex:held");
        MutexGuard(got)
    }
    pub fn try_lock(&self) -> Option<MutexGuard<'_, T>> {
        detsim::yield_point("mutex:try_lock");
        unpoison_try(self.inner.try_lock()).map(|g| MutexGuard(Some(g)))
    }
}
impl<T: Default> Default for Mutex<T> { fn default() -> Self { Self::new(T::default()) } }
impl<T: ?Sized> Deref for MutexGuard<'_, T> { type Target = T; fn deref(&self) -> &T { self.0.as_ref().unwrap() } }
impl<T: ?Sized> DerefMut for MutexGuard<'_, T> { fn deref_mut(&mut self) -> &mut T { self.0.as_mut().unwrap() } }
impl<T: ?Sized> Drop for MutexGuard<'_, T> {
    fn drop(&mut self) { self.0.take(); detsim::progress(); detsim::yield_point("mutex:release"); }
}
impl<T: ?Sized + std::fmt::Debug> std::fmt::Debug for Mutex<T> {
    fn fmt(&self, f: &mut std::fmt::Formatter<'_>) -> std::fmt::Result { f.write_str("Mutex { .. }") }
}
