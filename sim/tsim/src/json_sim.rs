//! fmt-sim, part 2: C14 — JSON output is always one valid JSON object per line and faithful to the data.
//! Every line is checked by an independent strict RFC 8259 parser (not serde_json) that rejects duplicate keys.
use crate::driver::finding_open;
use crate::fmt_sim::{build_fmt_layer, build_writer, SinkCall, SINKS};
use crate::fw::*;
use crate::jsites::{self, Vals};
use detsim::Rng;
use serde_json::{json, Value};
use std::collections::BTreeMap;
use std::sync::atomic::{AtomicUsize, Ordering};
use std::sync::{Arc, Mutex};
use tracing_core::dispatch::{self, Dispatch};
use tracing_subscriber::prelude::*;
use tracing_subscriber::Registry;

pub struct JsonEngine;

// ---- independent strict JSON parser --------------------------------------------------------------

#[derive(Clone, Debug, PartialEq)]
pub enum J {
    Null,
    Bool(bool),
    Num(String),
    Str(String),
    Arr(Vec<J>),
    Obj(Vec<(String, J)>),
}

struct P<'a> {
    s: &'a [u8],
    i: usize,
}
impl<'a> P<'a> {
    fn ws(&mut self) {
        while self.i < self.s.len() && matches!(self.s[self.i], b' ' | b'\t' | b'\n' | b'\r') {
            self.i += 1;
        }
    }
    fn err<T>(&self, m: &str) -> Result<T, String> {
        Err(format!("{m} at byte {}", self.i))
    }
    fn value(&mut self, depth: usize) -> Result<J, String> {
        if depth > 64 {
            return self.err("nesting too deep");
        }
        self.ws();
        if self.i >= self.s.len() {
            return self.err("unexpected end");
        }
        match self.s[self.i] {
            b'{' => {
                self.i += 1;
                let mut v: Vec<(String, J)> = vec![];
                self.ws();
                if self.peek() == Some(b'}') {
                    self.i += 1;
                    return Ok(J::Obj(v));
                }
                loop {
                    self.ws();
                    if self.peek() != Some(b'"') {
                        return self.err("expected object key");
                    }
                    let k = self.string()?;
                    if v.iter().any(|(kk, _)| *kk == k) {
                        return Err(format!("duplicate key {:?}", k));
                    }
                    self.ws();
                    if self.peek() != Some(b':') {
                        return self.err("expected ':'");
                    }
                    self.i += 1;
                    let val = self.value(depth + 1)?;
                    v.push((k, val));
                    self.ws();
                    match self.peek() {
                        Some(b',') => self.i += 1,
                        Some(b'}') => {
                            self.i += 1;
                            return Ok(J::Obj(v));
                        }
                        _ => return self.err("expected ',' or '}'"),
                    }
                }
            }
            b'[' => {
                self.i += 1;
                let mut v = vec![];
                self.ws();
                if self.peek() == Some(b']') {
                    self.i += 1;
                    return Ok(J::Arr(v));
                }
                loop {
                    v.push(self.value(depth + 1)?);
                    self.ws();
                    match self.peek() {
                        Some(b',') => self.i += 1,
                        Some(b']') => {
                            self.i += 1;
                            return Ok(J::Arr(v));
                        }
                        _ => return self.err("expected ',' or ']'"),
                    }
                }
            }
            b'"' => Ok(J::Str(self.string()?)),
            b't' => self.lit("true", J::Bool(true)),
            b'f' => self.lit("false", J::Bool(false)),
            b'n' => self.lit("null", J::Null),
            b'-' | b'0'..=b'9' => self.number(),
            _ => self.err("unexpected character"),
        }
    }
    fn peek(&self) -> Option<u8> {
        self.s.get(self.i).copied()
    }
    fn lit(&mut self, w: &str, v: J) -> Result<J, String> {
        if self.s[self.i..].starts_with(w.as_bytes()) {
            self.i += w.len();
            Ok(v)
        } else {
            self.err("bad literal")
        }
    }
    fn number(&mut self) -> Result<J, String> {
        let st = self.i;
        if self.peek() == Some(b'-') {
            self.i += 1;
        }
        match self.peek() {
            Some(b'0') => self.i += 1,
            Some(b'1'..=b'9') => {
                while matches!(self.peek(), Some(b'0'..=b'9')) {
                    self.i += 1;
                }
            }
            _ => return self.err("bad number"),
        }
        if self.peek() == Some(b'.') {
            self.i += 1;
            if !matches!(self.peek(), Some(b'0'..=b'9')) {
                return self.err("bad fraction");
            }
            while matches!(self.peek(), Some(b'0'..=b'9')) {
                self.i += 1;
            }
        }
        if matches!(self.peek(), Some(b'e') | Some(b'E')) {
            self.i += 1;
            if matches!(self.peek(), Some(b'+') | Some(b'-')) {
                self.i += 1;
            }
            if !matches!(self.peek(), Some(b'0'..=b'9')) {
                return self.err("bad exponent");
            }
            while matches!(self.peek(), Some(b'0'..=b'9')) {
                self.i += 1;
            }
        }
        Ok(J::Num(String::from_utf8_lossy(&self.s[st..self.i]).to_string()))
    }
    fn hex4(&mut self) -> Result<u32, String> {
        if self.i + 4 > self.s.len() {
            return self.err("short \\u escape");
        }
        let h = std::str::from_utf8(&self.s[self.i..self.i + 4]).map_err(|_| "bad \\u".to_string())?;
        let v = u32::from_str_radix(h, 16).map_err(|_| format!("bad \\u escape {:?}", h))?;
        self.i += 4;
        Ok(v)
    }
    fn string(&mut self) -> Result<String, String> {
        self.i += 1; // opening quote
        let mut out: Vec<u8> = vec![];
        loop {
            let c = match self.peek() {
                Some(c) => c,
                None => return self.err("unterminated string"),
            };
            match c {
                b'"' => {
                    self.i += 1;
                    return String::from_utf8(out).map_err(|_| "invalid UTF-8 in string".to_string());
                }
                b'\\' => {
                    self.i += 1;
                    let e = match self.peek() {
                        Some(e) => e,
                        None => return self.err("dangling backslash"),
                    };
                    self.i += 1;
                    match e {
                        b'"' => out.push(b'"'),
                        b'\\' => out.push(b'\\'),
                        b'/' => out.push(b'/'),
                        b'b' => out.push(8),
                        b'f' => out.push(12),
                        b'n' => out.push(b'\n'),
                        b'r' => out.push(b'\r'),
                        b't' => out.push(b'\t'),
                        b'u' => {
                            let hi = self.hex4()?;
                            let cp = if (0xD800..0xDC00).contains(&hi) {
                                if self.peek() == Some(b'\\') && self.s.get(self.i + 1) == Some(&b'u') {
                                    self.i += 2;
                                    let lo = self.hex4()?;
                                    if !(0xDC00..0xE000).contains(&lo) {
                                        return self.err("high surrogate not followed by a low surrogate");
                                    }
                                    0x10000 + ((hi - 0xD800) << 10) + (lo - 0xDC00)
                                } else {
                                    return self.err("lone high surrogate");
                                }
                            } else if (0xDC00..0xE000).contains(&hi) {
                                return self.err("lone low surrogate");
                            } else {
                                hi
                            };
                            let ch = char::from_u32(cp).ok_or("bad code point")?;
                            let mut b = [0u8; 4];
                            out.extend_from_slice(ch.encode_utf8(&mut b).as_bytes());
                        }
                        _ => return self.err("invalid escape"),
                    }
                }
                0..=0x1f => return self.err("unescaped control character in string"),
                _ => {
                    out.push(c);
                    self.i += 1;
                }
            }
        }
    }
}

pub fn parse_json(s: &str) -> Result<J, String> {
    let mut p = P { s: s.as_bytes(), i: 0 };
    let v = p.value(0)?;
    p.ws();
    if p.i != p.s.len() {
        return p.err("trailing characters");
    }
    Ok(v)
}

fn get<'a>(o: &'a J, k: &str) -> Option<&'a J> {
    match o {
        J::Obj(v) => v.iter().find(|(kk, _)| kk == k).map(|x| &x.1),
        _ => None,
    }
}

// ---- expectations ------------------------------------------------------------------------------

#[derive(Clone, Debug)]
enum Exp {
    Str(String),
    U(u128),
    I(i128),
    F(f64),
    B(bool),
    /// 128-bit integers have no dedicated mapping (they go through Debug): digits as a number or as a string
    Big(String),
}

fn matches_exp(j: &J, e: &Exp) -> bool {
    match (j, e) {
        (J::Str(s), Exp::Str(w)) => s == w,
        (J::Num(n), Exp::U(u)) => *n == u.to_string(),
        (J::Num(n), Exp::I(i)) => *n == i.to_string(),
        (J::Bool(b), Exp::B(w)) => b == w,
        (J::Num(n), Exp::Big(d)) => n == d,
        (J::Str(n), Exp::Big(d)) => n == d,
        (J::Null, Exp::F(f)) => !f.is_finite(),
        (J::Num(n), Exp::F(f)) => f.is_finite() && n.parse::<f64>().map_or(false, |x| x == *f),
        _ => false,
    }
}

const ALPHABET: [&str; 22] = ["\"", "\\", "\n", "\r", "\t", "\u{0}", "\u{1f}", "\u{7f}", "\u{2028}", "\u{2029}", "\u{1F600}", "\u{e9}", "/", "{", "}", ":", ",", " ", "a", "\\u0041", "\u{feff}", "\u{10FFFF}"];

fn hostile(rng: &mut Rng) -> String {
    let n = rng.below(7);
    (0..n).map(|_| *rng.pick(&ALPHABET)).collect()
}

fn gen_vals(rng: &mut Rng) -> Value {
    let f = *rng.pick(&[0.0f64, -0.0, 0.1, 1e308, -1e308, 5e-324, 1.5, 123456789.125, f64::NAN, f64::INFINITY, f64::NEG_INFINITY]);
    json!({
        "s": hostile(rng), "s2": hostile(rng),
        "u": rng.pick(&[0u64, 1, u64::MAX, 1 << 53, (1 << 53) + 1, 42]).to_string(),
        "i": rng.pick(&[0i64, -1, i64::MIN, i64::MAX, -(1 << 53) - 1, 7]).to_string(),
        "f": if f.is_nan() { json!("nan") } else if f == f64::INFINITY { json!("inf") } else if f == f64::NEG_INFINITY { json!("-inf") } else { json!(f.to_string()) },
        "b": rng.chance(1, 2),
        "big": rng.pick(&[0u128, u128::MAX, (u64::MAX as u128) + 1, 99]).to_string(),
        "neg": rng.pick(&[0i128, i128::MIN, -(u64::MAX as i128) - 1, -5]).to_string(),
    })
}
fn vals_of(v: &Value) -> Vals {
    let f = match v["f"].as_str().unwrap_or("0") {
        "nan" => f64::NAN,
        "inf" => f64::INFINITY,
        "-inf" => f64::NEG_INFINITY,
        x => x.parse::<f64>().unwrap_or(0.0),
    };
    Vals {
        s: v["s"].as_str().unwrap_or("").to_string(),
        s2: v["s2"].as_str().unwrap_or("").to_string(),
        u: v["u"].as_str().unwrap_or("0").parse().unwrap_or(0),
        i: v["i"].as_str().unwrap_or("0").parse().unwrap_or(0),
        f,
        b: v["b"].as_bool().unwrap_or(false),
        big: v["big"].as_str().unwrap_or("0").parse().unwrap_or(0),
        neg: v["neg"].as_str().unwrap_or("0").parse().unwrap_or(0),
    }
}

fn event_expect(kind: usize, v: &Vals) -> (String, BTreeMap<String, Exp>) {
    let mut m = BTreeMap::new();
    let target;
    match kind {
        0 => {
            target = "plain".to_string();
            m.insert("message".into(), Exp::Str(format!("msg {} end", v.s2)));
            m.insert("s".into(), Exp::Str(v.s.clone()));
            m.insert("u".into(), Exp::U(v.u as u128));
            m.insert("i".into(), Exp::I(v.i as i128));
            m.insert("f".into(), Exp::F(v.f));
            m.insert("b".into(), Exp::B(v.b));
        }
        1 => {
            target = jsites::HOSTILE_TARGET.to_string();
            m.insert("message".into(), Exp::Str(v.s2.clone()));
        }
        2 => {
            target = "plain".to_string();
            m.insert("fie\"ld".into(), Exp::U(v.u as u128));
            m.insert("sp ace".into(), Exp::Str(v.s.clone()));
            m.insert("uni\u{2029}".into(), Exp::B(v.b));
            m.insert("ctl\u{1}x".into(), Exp::I(v.i as i128));
            m.insert("emoji\u{1F600}".into(), Exp::F(v.f));
            m.insert("back\\slash".into(), Exp::Str(v.s2.clone()));
        }
        3 => {
            target = "plain".to_string();
            m.insert("d".into(), Exp::Str(v.s.clone()));
            m.insert("p".into(), Exp::Str(v.s2.clone()));
            m.insert("e".into(), Exp::Str(v.s2.clone()));
        }
        _ => {
            target = "plain".to_string();
            m.insert("big".into(), Exp::Big(v.big.to_string()));
            m.insert("neg".into(), Exp::Big(v.neg.to_string()));
            m.insert("f".into(), Exp::F(v.f));
            m.insert("u".into(), Exp::U(v.u as u128));
            m.insert("i".into(), Exp::I(v.i as i128));
        }
    }
    (target, m)
}

fn span_expect(kind: usize, v: &Vals) -> (String, BTreeMap<String, Exp>) {
    let mut m = BTreeMap::new();
    let name = match kind {
        0 => {
            m.insert("a".into(), Exp::Str(v.s.clone()));
            m.insert("n".into(), Exp::I(v.i as i128));
            "plain_span"
        }
        1 => {
            m.insert("a".into(), Exp::Str(v.s2.clone()));
            jsites::HOSTILE_SPAN
        }
        2 => {
            m.insert("f\"q".into(), Exp::Str(v.s.clone()));
            "odd_fields"
        }
        4 => {
            // names that merely start with "log" (the `log.` prefix of bridged records is something else)
            m.insert("login".into(), Exp::Str(v.s.clone()));
            m.insert("logger".into(), Exp::Str(v.s2.clone()));
            m.insert("logged_in".into(), Exp::B(v.b));
            "log_named"
        }
        _ => "bad_span",
    };
    (name.to_string(), m)
}

#[derive(Clone, Debug, Default)]
struct H {
    gi: usize,
    t: usize,
    op: String,
    inv: u64,
    ret: u64,
    uid: u64,
    kind: usize,
    vals: Value,
    applied: bool,
    panicked: bool,
    /// spans in scope on this thread (root -> leaf), as uids
    scope: Vec<u64>,
    field: String,
    rec: Value,
    slot: usize,
    /// the span was created before the JSON layer was swapped in through a reload handle
    pre: bool,
}
static HIST: Mutex<Vec<H>> = Mutex::new(Vec::new());
static TURN: AtomicUsize = AtomicUsize::new(0);
const NSLOTS: usize = 6;
/// a slot keeps its handle while another thread records through it (the recorder holds a second `Arc`)
static SLOTS: Mutex<Vec<Option<(Arc<tracing::Span>, u64)>>> = Mutex::new(Vec::new());
/// spans currently entered on any thread (an exit must never be the operation that closes a span: finding F13)
static ENTERED_ANY: Mutex<Vec<u64>> = Mutex::new(Vec::new());

fn thread_body(t: usize, d: Dispatch, mine: Vec<(usize, Value)>, sync: bool) {
    let _g = dispatch::set_default(&d);
    let mut stack: Vec<(u64, tracing_core::span::Id, Dispatch)> = vec![];
    for (gi, s) in mine {
        if sync {
            detsim::op_boundary("op");
        } else {
            detsim::block_until("turn", None, || TURN.load(Ordering::SeqCst) == gi);
        }
        let op = s["op"].as_str().unwrap_or("").to_string();
        let kind = s["kind"].as_u64().unwrap_or(0) as usize;
        let slot = s["slot"].as_u64().unwrap_or(0) as usize % NSLOTS;
        let uid = (gi as u64 + 1) * 10;
        let mut h = H { gi, t, op: op.clone(), kind, uid, vals: s["vals"].clone(), applied: true, slot, ..Default::default() };
        h.scope = stack.iter().map(|x| x.0).collect();
        h.inv = detsim::stamp();
        let rec_uid = std::cell::Cell::new(0u64);
        let r = std::panic::catch_unwind(std::panic::AssertUnwindSafe(|| match op.as_str() {
            "event" => {
                if kind == 5 {
                    fault("panic_in_field_value");
                }
                jsites::event(kind, &vals_of(&s["vals"]), uid);
                true
            }
            "span" => {
                let free = SLOTS.lock().unwrap()[slot].is_none();
                if !free {
                    return false;
                }
                if kind == 3 {
                    fault("panic_in_span_field_value");
                }
                let sp = jsites::span(kind, &vals_of(&s["vals"]), uid);
                SLOTS.lock().unwrap()[slot] = Some((Arc::new(sp), uid));
                true
            }
            "enter" => {
                let x = SLOTS.lock().unwrap()[slot].as_ref().and_then(|(sp, u)| sp.with_collector(|(id, d)| (*u, id.clone(), d.clone())));
                match x {
                    Some((u, id, d)) if !stack.iter().any(|e| e.0 == u) => {
                        ENTERED_ANY.lock().unwrap().push(u);
                        d.enter(&id);
                        stack.push((u, id, d));
                        true
                    }
                    _ => false,
                }
            }
            "exit" => match stack.pop() {
                Some((u, id, d)) => {
                    d.exit(&id);
                    let mut e = ENTERED_ANY.lock().unwrap();
                    if let Some(p) = e.iter().position(|x| *x == u) {
                        e.remove(p);
                    }
                    true
                }
                None => false,
            },
            "record" => {
                // any thread may record through the slot's handle, also while others record on the same span
                let held = SLOTS.lock().unwrap()[slot].clone();
                match held {
                    Some((sp, u)) => {
                        rec_uid.set(u);
                        let field = s["field"].as_str().unwrap_or("later");
                        match &s["rec"] {
                            Value::String(x) => {
                                sp.record(field, x.as_str());
                            }
                            Value::Bool(b) => {
                                sp.record(field, *b);
                            }
                            Value::Number(n) => {
                                sp.record(field, n.as_i64().unwrap_or(0));
                            }
                            Value::Object(_) => {
                                // fault: the recorded value's Debug impl panics (caught around the op); the span's
                                // fields stay as they were and the span can be used as before
                                fault("panic_in_recorded_value");
                                sp.record(field, tracing::field::debug(jsites::PanicOnDebug));
                            }
                            _ => {}
                        }
                        drop(sp);
                        true
                    }
                    None => false,
                }
            }
            "drop" => {
                let taken = SLOTS.lock().unwrap()[slot].take();
                match taken {
                    Some((sp, u)) => {
                        if ENTERED_ANY.lock().unwrap().contains(&u) && finding_open("F13") {
                            SLOTS.lock().unwrap()[slot] = Some((sp, u));
                            false
                        } else {
                            drop(sp);
                            true
                        }
                    }
                    None => false,
                }
            }
            _ => false,
        }));
        match r {
            Ok(a) => h.applied = a,
            Err(_) => h.panicked = true,
        }
        if op == "span" || op == "enter" || op == "drop" {
            h.uid = SLOTS.lock().unwrap()[slot].as_ref().map(|x| x.1).unwrap_or(h.uid);
        }
        if op == "record" && rec_uid.get() != 0 {
            h.uid = rec_uid.get();
        }
        h.field = s["field"].as_str().unwrap_or("").to_string();
        h.rec = s["rec"].clone();
        h.ret = detsim::stamp();
        ev(format!("op {gi} t{t} {op} kind{kind} applied={} panicked={}", h.applied, h.panicked));
        HIST.lock().unwrap().push(h);
        if !sync {
            TURN.store(gi + 1, Ordering::SeqCst);
            detsim::progress();
        }
    }
    while let Some((u, id, d)) = stack.pop() {
        d.exit(&id);
        let mut e = ENTERED_ANY.lock().unwrap();
        if let Some(p) = e.iter().position(|x| *x == u) {
            e.remove(p);
        }
    }
}

impl Engine for JsonEngine {
    fn name(&self) -> &'static str {
        "json-sim"
    }
    fn props(&self) -> &'static [&'static str] {
        &["C14"]
    }
    fn rule(&self, _p: &str) -> String {
        "JSON formatter x {flatten_event, current_span, span_list, target/level/thread/file/line options}; hostile strings (quotes, backslashes, control characters, U+2028/9, astral and non-characters, a literal \\u0041) in messages, field names, string values, targets and span names; numeric extremes (u64/i64/u128/i128 bounds, 2^53+1, NaN, +-inf, -0.0, subnormal), bools, errors, Debug/Display values; spans whose fields are recorded later in 0..n steps from up to three threads - also overlapping each other on one span - while another thread emits events inside the span (under seeded schedules each field is judged as an atomic register: an event must show a value of a record call not certainly superseded before the event began, and the creation-time state only if no record call had certainly completed); faults: a panicking Debug in an event field or in a span field (caught); non-trivial = at least one record carried a hostile string and at least one span had a field recorded after creation and was listed in a later event; distinct = distinct (plan, schedule digest)".into()
    }
    fn components(&self) -> Value {
        json!({"real": ["fmt::format::Json (format_event, SerializableSpan, SerializableContext)", "JsonFields::add_fields (merge and re-serialise)", "tracing-serde visitors", "serde_json serializer", "Registry + span extensions", "reload::Subscriber (a fifth of the runs swap the layer in after spans exist)"], "stub": ["sink (recording writer)", "independent RFC 8259 parser as oracle"]})
    }
    fn generate(&self, g: &GenCtx) -> Value {
        let mut rng = Rng::new(g.seed);
        let opts = json!({
            "format": "json", "timer": rng.chance(1, 3), "ansi": false, "target": rng.chance(3, 4), "level": rng.chance(4, 5),
            "thread_ids": rng.chance(1, 4), "thread_names": rng.chance(1, 4), "file": rng.chance(1, 4), "line": rng.chance(1, 4),
            "span_events": *rng.pick(&["none", "none", "none", "full"]),
            "flatten": rng.chance(1, 3), "current_span": rng.chance(3, 4), "span_list": rng.chance(3, 4),
        });
        let sync = rng.chance(1, 4);
        let nthreads = if sync { rng.range(2, 3) } else { rng.range(1, 2) };
        let n = rng.range(4, if g.tier == "thorough" { 30 } else { 20 });
        // (a span whose field's Debug panics is never handed to the caller: the panic unwinds out of the span
        // macro, so there is no handle to enter; the fault only tests that later records stay valid)
        let f19_guard = false;
        let mut steps = vec![];
        let hot = rng.below(NSLOTS as u64);
        for _ in 0..n {
            let mut t = rng.below(nthreads);
            // most steps concentrate on one slot so that create / enter / record-later / emit-inside chains form
            let slot = if rng.chance(2, 3) { hot } else { rng.below(NSLOTS as u64) };
            let roll = rng.below(100);
            // under seeded schedules record calls are more frequent (they are what races)
            let roll = if sync && roll < 14 { 85 } else { roll };
            // under seeded schedules a handle is created, entered and dropped by one owner thread (another thread
            // may record on it or emit inside it); otherwise enter could race with the last drop, which is misuse
            if sync && matches!(roll, 40..=69 | 94..=99) {
                t = slot % nthreads;
            }
            steps.push(match roll {
                0..=39 => {
                    let kind = if rng.chance(1, 12) { 5 } else { rng.below(5) };
                    json!({"t": t, "op": "event", "kind": kind, "vals": gen_vals(&mut rng)})
                }
                40..=54 => {
                    let kind = if rng.chance(1, 10) && !f19_guard { 3 } else { *rng.pick(&[0u64, 1, 2, 4]) };
                    json!({"t": t, "op": "span", "slot": slot, "kind": kind, "vals": gen_vals(&mut rng)})
                }
                55..=69 => json!({"t": t, "op": "enter", "slot": slot}),
                70..=79 => json!({"t": t, "op": "exit"}),
                80..=93 => {
                    let rec = match if !f19_guard && rng.chance(1, 10) { 9 } else { rng.below(3) } {
                        9 => json!({"boom": true}),
                        0 => json!(hostile(&mut rng)),
                        1 => json!(rng.chance(1, 2)),
                        _ => json!(*rng.pick(&[0i64, -1, i64::MAX, i64::MIN, 17])),
                    };
                    json!({"t": t, "op": "record", "slot": slot, "field": *rng.pick(&["later", "later", "later2"]), "rec": rec})
                }
                _ => json!({"t": t, "op": "drop", "slot": slot}),
            });
        }
        let sched = if sync { Sched::swarm(&mut rng, 400) } else { Sched::op_order(rng.next_u64()) };
        // a fifth of the runs swap the JSON layer in through a `reload` handle after some spans exist already (the hot
        // slot among them): those spans carry nothing the layer's `on_new_span` would have stored, so the first `record`
        // on them - possibly two at once - and every event inside them take the layer's "nothing formatted yet" paths
        let mut pre = vec![];
        if rng.chance(1, 5) {
            let mut slots = vec![hot];
            for _ in 0..rng.below(3) {
                let s2 = rng.below(NSLOTS as u64);
                if !slots.contains(&s2) {
                    slots.push(s2);
                }
            }
            for s2 in slots {
                pre.push(json!({"op": "span", "slot": s2, "kind": *rng.pick(&[0u64, 1, 2, 4]), "vals": gen_vals(&mut rng)}));
            }
        }
        let sink = if rng.chance(1, 5) { json!({"k": "sink", "id": 0, "short": *rng.pick(&[1u64, 7, 16, 64])}) } else { json!({"k": "sink", "id": 0}) };
        json!({"engine": "json", "prop": g.prop, "mode": g.mode, "cfg": {"opts": opts, "threads": nthreads, "sink": sink}, "pre": pre, "steps": steps, "sched": serde_json::to_value(&sched).unwrap()})
    }

    fn classify_known(&self, plan: &Value, res: &RunResult) -> Option<String> {
        if plan["mode"] == "probe:F19" && finding_open("F19") && res.detail.contains("[F19-signature]") {
            return Some("F19 after a span field's Debug impl panicked at span creation, every later event inside that span panics in the JSON formatter".into());
        }
        None
    }

    fn execute(&self, plan: &Value) -> RunResult {
        let sched = plan_sched(plan);
        let cfg = plan["cfg"].clone();
        let nthreads = cfg["threads"].as_u64().unwrap_or(1).max(1) as usize;
        let steps: Vec<Value> = plan["steps"].as_array().cloned().unwrap_or_default();
        std::panic::set_hook(Box::new(|_| {}));
        WALL_ENABLED.store(true, Ordering::SeqCst);
        *SLOTS.lock().unwrap() = (0..NSLOTS).map(|_| None).collect();
        let sync = sched.sync;
        let cfg2 = cfg.clone();
        let pre: Vec<Value> = plan["pre"].as_array().cloned().unwrap_or_default();
        let body = move || {
            // a fifth of the runs write to a sink that takes only a few bytes per call (the layer must offer the rest again)
            let w = build_writer(&cfg2["sink"]);
            let layer = build_fmt_layer(&cfg2["opts"], w);
            let d = if pre.is_empty() {
                Dispatch::new(Registry::default().with(layer))
            } else {
                type Boxed = Box<dyn tracing_subscriber::Subscribe<Registry> + Send + Sync>;
                let initial: Boxed = Box::new(tracing_subscriber::subscribe::Identity::new());
                let (rl, handle) = tracing_subscriber::reload::Subscriber::new(initial);
                let d = Dispatch::new(Registry::default().with(rl));
                {
                    let _g = dispatch::set_default(&d);
                    for (i, s) in pre.iter().enumerate() {
                        let kind = s["kind"].as_u64().unwrap_or(0) as usize;
                        let slot = s["slot"].as_u64().unwrap_or(0) as usize % NSLOTS;
                        let uid = (100_000 + i as u64) * 10;
                        let mut h = H { gi: 100_000 + i, t: 0, op: "span".into(), kind, uid, vals: s["vals"].clone(), applied: true, slot, pre: true, ..Default::default() };
                        h.inv = detsim::stamp();
                        let sp = jsites::span(kind, &vals_of(&s["vals"]), uid);
                        SLOTS.lock().unwrap()[slot] = Some((Arc::new(sp), uid));
                        h.ret = detsim::stamp();
                        HIST.lock().unwrap().push(h);
                    }
                }
                if handle.reload(layer).is_err() {
                    violation("reload-failed", "swapping the JSON layer in through the reload handle failed");
                }
                d
            };
            let indexed: Vec<(usize, usize, Value)> = steps.iter().enumerate().map(|(gi, s)| (gi, (s["t"].as_u64().unwrap_or(0) as usize) % nthreads, s.clone())).collect();
            TURN.store(0, Ordering::SeqCst);
            let mut tids = vec![];
            for t in 1..nthreads {
                let mine: Vec<(usize, Value)> = indexed.iter().filter(|x| x.1 == t).map(|x| (x.0, x.2.clone())).collect();
                let d = d.clone();
                tids.push(detsim::spawn(&format!("t{t}"), move || thread_body(t, d, mine, sync)));
            }
            let mine: Vec<(usize, Value)> = indexed.iter().filter(|x| x.1 == 0).map(|x| (x.0, x.2.clone())).collect();
            thread_body(0, d.clone(), mine, sync);
            for id in tids {
                detsim::join(id);
            }
            let _g = dispatch::set_default(&d);
            let rest: Vec<Option<(Arc<tracing::Span>, u64)>> = SLOTS.lock().unwrap().drain(..).collect();
            drop(rest);
        };
        let finish = move || {
            let hist = std::mem::take(&mut *HIST.lock().unwrap());
            oracle(&cfg, sync, &hist);
        };
        simulate(&plan.to_string(), &sched, None, body, finish)
    }
}

fn oracle(cfg: &Value, sync: bool, hist: &[H]) {
    let sync_mode = sync;
    let opts = &cfg["opts"];
    let flatten = opts["flatten"].as_bool().unwrap_or(false);
    let calls: Vec<SinkCall> = SINKS.lock().unwrap().get(0).map(|s| s.lock().unwrap().calls.clone()).unwrap_or_default();
    let mut hist: Vec<H> = hist.to_vec();
    hist.sort_by_key(|h| h.inv);
    // span models: uid -> (kind, name, fields with every value a field may legitimately show)
    struct MS {
        parent: u64,
        name: String,
        target: String,
        fields: BTreeMap<String, Vec<Exp>>,
        broken: bool,
    }
    let mut spans: BTreeMap<u64, MS> = BTreeMap::new();
    let mut hostile_seen = false;
    let mut late_listed = false;
    let mut late_recorded: std::collections::HashSet<u64> = Default::default();
    // 1. every write is one line, one valid JSON object with unique keys
    let mut parsed: Vec<(u64, usize, J, String)> = vec![]; // (stamp, thread, object, text)
    for c in &calls {
        if let SinkCall::Write { stamp, thread, bytes, .. } = c {
            let text = match String::from_utf8(bytes.clone()) {
                Ok(t) => t,
                Err(_) => {
                    violation("invalid-utf8", format!("record is not valid UTF-8: {:?}", String::from_utf8_lossy(bytes)));
                    return;
                }
            };
            if !text.ends_with('\n') || text[..text.len() - 1].contains('\n') || text.contains('\r') {
                violation("not-one-line", format!("record is not exactly one line: {:?}", text));
                return;
            }
            match parse_json(text.trim_end_matches('\n')) {
                Ok(J::Obj(o)) => parsed.push((*stamp, *thread, J::Obj(o), text)),
                Ok(_) => {
                    violation("invalid-json", format!("record is valid JSON but not an object: {:?}", text));
                    return;
                }
                Err(e) => {
                    violation("invalid-json", format!("record does not parse ({e}): {:?}", text));
                    return;
                }
            }
        }
    }
    // under a seeded schedule record calls overlap events and each other. A span field is a register: `record`
    // is atomic (it holds the span's extensions lock), so an event must show, for every field, a value written by
    // a record call that is not certainly superseded before the event began - or the creation-time state only if
    // no record call on that field had certainly completed by then. (uid, field) -> [(inv, ret, value)]
    let mut recs: BTreeMap<(u64, String), Vec<(u64, u64, Exp)>> = BTreeMap::new();
    if sync_mode {
        for h in hist.iter().filter(|h| h.op == "record" && h.applied) {
            let e = match &h.rec {
                Value::String(s) => Exp::Str(s.clone()),
                Value::Bool(b) => Exp::B(*b),
                Value::Number(n) => Exp::I(n.as_i64().unwrap_or(0) as i128),
                _ => continue,
            };
            recs.entry((h.uid, h.field.clone())).or_default().push((h.inv, h.ret, e));
        }
    }
    // 2. faithfulness, per operation
    for h in &hist {
        match h.op.as_str() {
            "span" if h.applied || h.panicked => {
                let v = vals_of(&h.vals);
                let (name, f) = span_expect(h.kind, &v);
                let target = if h.kind == 1 { jsites::HOSTILE_TARGET.to_string() } else { "plain".to_string() };
                let mut fields: BTreeMap<String, Vec<Exp>> = f.into_iter().map(|(k, e)| (k, vec![e])).collect();
                fields.insert("uid".into(), vec![Exp::U(h.uid as u128)]);
                if h.pre {
                    // the JSON layer never saw this span's creation: all it can show is the name and what is
                    // recorded from now on
                    fields.clear();
                }
                spans.insert(h.uid, MS { parent: h.scope.last().copied().unwrap_or(0), name, target, fields, broken: h.panicked });
                if h.panicked && h.kind != 3 {
                    violation("panic", format!("creating span kind {} panicked although no field panics", h.kind));
                    return;
                }
            }
            "record" if h.panicked && !h.rec.is_object() => {
                violation("panic", format!("record op {} on span uid {} panicked although the recorded value does not", h.gi, h.uid));
                return;
            }
            "record" if h.applied => {
                if let Some(ms) = spans.get_mut(&h.uid) {
                    let field = if h.kind == 2 && h.field == "later" { "later".to_string() } else { h.field.clone() };
                    let e = match &h.rec {
                        Value::String(s) => Exp::Str(s.clone()),
                        Value::Bool(b) => Exp::B(*b),
                        Value::Number(n) => Exp::I(n.as_i64().unwrap_or(0) as i128),
                        _ => continue,
                    };
                    if !sync {
                        *ms.fields.entry(field).or_default() = vec![e];
                    }
                    late_recorded.insert(h.uid);
                }
            }
            "event" => {
                // the spans "in scope" are the current span and its ancestors (parent links), root -> leaf
                let chain: Vec<u64> = {
                    let mut v = vec![];
                    let mut u = h.scope.last().copied().unwrap_or(0);
                    while u != 0 {
                        v.push(u);
                        u = spans.get(&u).map_or(0, |s| s.parent);
                    }
                    v.reverse();
                    v
                };
                let in_broken_span = chain.iter().any(|u| spans.get(u).map_or(false, |s| s.broken));
                if h.kind == 5 {
                    if !h.panicked {
                        // the panicking Debug must surface to the caller (it is the caller's bug), nothing to check
                    }
                    continue;
                }
                if h.panicked {
                    let sig = if in_broken_span { " [F19-signature]" } else { "" };
                    violation("panic", format!("event op {} (kind {}) panicked inside the formatter although none of its fields panics{sig}", h.gi, h.kind));
                    return;
                }
                let v = vals_of(&h.vals);
                let (target, want) = event_expect(h.kind, &v);
                // find the record: the write by this thread inside the op window whose uid matches
                let rec = parsed.iter().find(|(stamp, thread, o, _)| *thread == h.t && *stamp > h.inv && *stamp < h.ret && {
                    let f = if flatten { Some(o) } else { get(o, "fields") };
                    f.and_then(|f| get(f, "uid")).map_or(false, |u| *u == J::Num(h.uid.to_string()))
                });
                let (_, _, o, text) = match rec {
                    Some(r) => r,
                    None => {
                        violation("record-missing", format!("event op {} (uid {}) produced no record carrying its uid", h.gi, h.uid));
                        return;
                    }
                };
                if v.s.chars().any(|c| "\"\\\n\u{2028}".contains(c)) || v.s2.chars().any(|c| "\"\\\n\u{2028}".contains(c)) || h.kind == 1 || h.kind == 2 {
                    hostile_seen = true;
                }
                let fobj = if flatten { o } else { get(o, "fields").unwrap_or(&J::Null) };
                for (k, e) in &want {
                    match get(fobj, k) {
                        Some(j) if matches_exp(j, e) => {}
                        other => {
                            violation("field-value-differs", format!("event op {} field {:?}: recorded {:?} but the JSON has {:?}; record {:?}", h.gi, k, e, other, text));
                            return;
                        }
                    }
                }
                if !flatten {
                    if let J::Obj(fs) = fobj {
                        for (k, _) in fs {
                            if k != "uid" && !want.contains_key(k) {
                                violation("field-invented", format!("event op {}: the JSON has a field {:?} that was never recorded; record {:?}", h.gi, k, text));
                                return;
                            }
                        }
                    }
                }
                if opts["target"].as_bool().unwrap_or(true) {
                    if get(o, "target") != Some(&J::Str(target.clone())) {
                        violation("field-value-differs", format!("event op {}: target {:?} expected, JSON has {:?}", h.gi, target, get(o, "target")));
                        return;
                    }
                }
                // span list: the thread's scope root -> leaf (events here never have an explicit parent)
                let check_span = |j: &J, uid: u64| -> Result<(), String> {
                    let ms = match spans.get(&uid) {
                        Some(m) => m,
                        None => return Ok(()),
                    };
                    if get(j, "name") != Some(&J::Str(ms.name.clone())) {
                        return Err(format!("span uid {uid}: name {:?} expected, JSON has {:?}", ms.name, get(j, "name")));
                    }
                    if ms.broken {
                        return Ok(());
                    }
                    if sync_mode {
                        let mut keys: std::collections::BTreeSet<String> = ms.fields.keys().cloned().collect();
                        for ((u, k), _) in recs.iter() {
                            if *u == uid {
                                keys.insert(k.clone());
                            }
                        }
                        for k in &keys {
                            let rs: &[(u64, u64, Exp)] = recs.get(&(uid, k.clone())).map(|v| v.as_slice()).unwrap_or(&[]);
                            let creation_state_allowed = !rs.iter().any(|r| r.1 < h.inv);
                            let cands: Vec<&Exp> = rs.iter().filter(|r| r.0 < h.ret && !rs.iter().any(|q| r.1 < q.0 && q.1 < h.inv)).map(|r| &r.2).collect();
                            let ok = match get(j, k) {
                                Some(x) => cands.iter().any(|e| matches_exp(x, e)) || (creation_state_allowed && ms.fields.get(k).map_or(false, |es| es.iter().any(|e| matches_exp(x, e)))),
                                None => creation_state_allowed && !ms.fields.contains_key(k),
                            };
                            if !ok {
                                return Err(format!("span uid {uid} field {:?}: the JSON has {:?}; values a completed or overlapping record call may have left: {:?}; creation-time value {:?} (still allowed: {})", k, get(j, k), cands, ms.fields.get(k), creation_state_allowed));
                            }
                        }
                        if let J::Obj(fs) = j {
                            for (k, _) in fs {
                                if k != "name" && !keys.contains(k) {
                                    return Err(format!("span uid {uid}: the JSON has a field {:?} that was never recorded", k));
                                }
                            }
                        }
                    } else {
                        for (k, es) in &ms.fields {
                            match get(j, k) {
                                Some(x) if es.iter().any(|e| matches_exp(x, e)) => {}
                                other => return Err(format!("span uid {uid} field {:?}: recorded {:?} but the JSON has {:?}", k, es, other)),
                            }
                        }
                        if let J::Obj(fs) = j {
                            for (k, _) in fs {
                                if k != "name" && !ms.fields.contains_key(k) {
                                    return Err(format!("span uid {uid}: the JSON has a field {:?} that was never recorded", k));
                                }
                            }
                        }
                    }
                    let _ = &ms.target;
                    Ok(())
                };
                if opts["span_list"].as_bool().unwrap_or(true) && !chain.is_empty() {
                    match get(o, "spans") {
                        Some(J::Arr(a)) => {
                            if a.len() != chain.len() {
                                violation("span-list-differs", format!("event op {}: {} spans in scope but the JSON lists {}; record {:?}", h.gi, chain.len(), a.len(), text));
                                return;
                            }
                            for (j, uid) in a.iter().zip(chain.iter()) {
                                if let Err(e) = check_span(j, *uid) {
                                    violation("span-list-differs", format!("event op {}: {e}; record {:?}", h.gi, text));
                                    return;
                                }
                                if late_recorded.contains(uid) {
                                    late_listed = true;
                                }
                            }
                        }
                        other => {
                            violation("span-list-differs", format!("event op {}: `spans` is {:?} with {} spans in scope; record {:?}", h.gi, other.map(|_| "not an array"), chain.len(), text));
                            return;
                        }
                    }
                }
                if opts["current_span"].as_bool().unwrap_or(true) {
                    if let Some(leaf) = h.scope.last() {
                        match get(o, "span") {
                            Some(j) => {
                                if let Err(e) = check_span(j, *leaf) {
                                    violation("span-list-differs", format!("event op {}: current span: {e}; record {:?}", h.gi, text));
                                    return;
                                }
                            }
                            None => {
                                violation("span-list-differs", format!("event op {}: no `span` entry although a span is entered; record {:?}", h.gi, text));
                                return;
                            }
                        }
                    }
                }
            }
            "enter" | "exit" | "drop" if h.panicked => {
                let sig = if spans.get(&h.uid).map_or(false, |s| s.broken) || h.scope.iter().any(|u| spans.get(u).map_or(false, |s| s.broken)) { " [F19-signature]" } else { "" };
                violation("panic", format!("op {} ({}) panicked{sig}", h.gi, h.op));
                return;
            }
            _ => {}
        }
    }
    if hostile_seen && late_listed {
        nontrivial();
    }
}
