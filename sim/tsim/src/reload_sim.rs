//! stack-sim, part 3: C12 — after a reload returns, every thread filters with the new value.
use crate::driver::finding_open;
use crate::fw::*;
use crate::reclayer::{self, LRec, RecLayer};
use crate::sites;
use crate::stack::{self, BoxF, BoxS, Ctx};
use detsim::Rng;
use serde_json::{json, Value};
use std::sync::atomic::{AtomicUsize, Ordering};
use std::sync::Mutex;
use tracing_core::dispatch::{self, Dispatch};
use tracing_core::LevelFilter;
use tracing_subscriber::prelude::*;
use tracing_subscriber::reload;
use tracing_subscriber::subscribe::Layered;
use tracing_subscriber::Registry;

pub struct ReloadEngine;

type G0 = Option<BoxS<Registry>>;
type CLeaf = Layered<RecLayer, Registry>;
type G1 = Option<BoxS<CLeaf>>;
type F0 = Option<BoxF<Registry>>;

enum Handles {
    G0(reload::Handle<G0>),
    G1(reload::Handle<G1>),
    F(reload::Handle<F0>),
}

#[derive(Clone, Debug, Default)]
struct H {
    gi: usize,
    t: usize,
    op: String,
    inv: u64,
    ret: u64,
    uid: u64,
    site: usize,
    ok: bool,
    dropped_err: bool,
    value: Value,
    maxlvl: i64,
    /// when the reload stored its value (0: unknown)
    wstamp: u64,
}
static HIST: Mutex<Vec<H>> = Mutex::new(Vec::new());
static TURN: AtomicUsize = AtomicUsize::new(0);
static HANDLE: Mutex<Option<Handles>> = Mutex::new(None);

fn lvl_num(l: LevelFilter) -> i64 {
    if l == LevelFilter::OFF {
        0
    } else if l == LevelFilter::ERROR {
        1
    } else if l == LevelFilter::WARN {
        2
    } else if l == LevelFilter::INFO {
        3
    } else if l == LevelFilter::DEBUG {
        4
    } else {
        5
    }
}

/// -> (ok, is_dropped error, stamp at which the new value was stored - known only for `modify`, whose closure runs
/// under the layer's write lock; 0 otherwise)
fn do_reload(v: &Value, via_modify: bool) -> (bool, bool, u64) {
    let wstamp = std::cell::Cell::new(0u64);
    // a clone of the handle, so that no harness lock is held while code under test runs and several threads
    // can reload at once
    let h = match &*HANDLE.lock().unwrap() {
        Some(Handles::G0(h)) => Some(Handles::G0(h.clone())),
        Some(Handles::G1(h)) => Some(Handles::G1(h.clone())),
        Some(Handles::F(h)) => Some(Handles::F(h.clone())),
        None => None,
    };
    let r = match &h {
        Some(Handles::G0(h)) => {
            let nv: G0 = if v.is_null() { None } else { Some(stack::build_global::<Registry>(v)) };
            if via_modify {
                let mut nv = Some(nv);
                h.modify(|cur| {
                    *cur = nv.take().unwrap();
                    wstamp.set(detsim::stamp());
                })
            } else {
                h.reload(nv)
            }
        }
        Some(Handles::G1(h)) => {
            let nv: G1 = if v.is_null() { None } else { Some(stack::build_global::<CLeaf>(v)) };
            if via_modify {
                let mut nv = Some(nv);
                h.modify(|cur| {
                    *cur = nv.take().unwrap();
                    wstamp.set(detsim::stamp());
                })
            } else {
                h.reload(nv)
            }
        }
        Some(Handles::F(h)) => {
            let nv: F0 = if v.is_null() { None } else { Some(stack::build_filter::<Registry>(v)) };
            if via_modify {
                let mut nv = Some(nv);
                h.modify(|cur| {
                    *cur = nv.take().unwrap();
                    wstamp.set(detsim::stamp());
                })
            } else {
                h.reload(nv)
            }
        }
        None => return (false, false, 0),
    };
    let out = match &r {
        Ok(()) => (true, false, wstamp.get()),
        Err(e) => (false, e.is_dropped(), 0),
    };
    out
}

fn exec_step(gi: usize, t: usize, s: &Value, record_max: bool) {
    let op = s["op"].as_str().unwrap_or("").to_string();
    let site = s["site"].as_u64().unwrap_or(0) as usize % sites::N;
    let uid = (gi as u64 + 1) * 1000;
    let mut h = H { gi, t, op: op.clone(), site, uid, maxlvl: -1, ..Default::default() };
    h.inv = detsim::stamp();
    match op.as_str() {
        "event" => {
            sites::emit_event(site, uid);
            h.maxlvl = lvl_num(LevelFilter::current());
        }
        "span" => {
            drop(sites::make_span(site, uid));
            h.maxlvl = lvl_num(LevelFilter::current());
        }
        "reload" => {
            h.value = s["v"].clone();
            let via_modify = s["modify"].as_bool().unwrap_or(false);
            let (ok, de, ws) = if s["unwind"].as_bool().unwrap_or(false) {
                // fault: the reload is issued from a guard's destructor while a panic (caught here) unwinds; it
                // must take effect like any other
                fault("reload_during_unwinding");
                struct ReloadOnDrop<'a>(&'a Value, bool, &'a std::cell::Cell<(bool, bool, u64)>);
                impl Drop for ReloadOnDrop<'_> {
                    fn drop(&mut self) {
                        self.2.set(do_reload(self.0, self.1));
                    }
                }
                let out = std::cell::Cell::new((false, false, 0));
                // (the destructor takes locks other simulated threads may hold: it runs under the scheduler)
                detsim::set_simulate_unwinding(true);
                let _ = std::panic::catch_unwind(std::panic::AssertUnwindSafe(|| {
                    let _g = ReloadOnDrop(&s["v"], via_modify, &out);
                    panic!("injected panic in a scope that restores a filter on exit");
                }));
                detsim::set_simulate_unwinding(false);
                out.get()
            } else {
                do_reload(&s["v"], via_modify)
            };
            h.ok = ok;
            h.dropped_err = de;
            h.wstamp = ws;
        }
        _ => {}
    }
    h.ret = detsim::stamp();
    if record_max && op == "reload" {
        h.maxlvl = lvl_num(LevelFilter::current());
    }
    ev(format!("op {gi} t{t} {op} site{site} ok={} max={}", h.ok, h.maxlvl));
    HIST.lock().unwrap().push(h);
}

fn gen_value(rng: &mut Rng) -> Value {
    match rng.below(6) {
        0 => Value::Null,
        1 | 2 => json!({"k": "level", "thr": rng.below(6)}),
        3 => {
            let mut v = stack::gen_table(rng);
            v["k"] = json!("targets");
            v
        }
        4 => {
            let mut v = stack::gen_table(rng);
            v["k"] = json!("env");
            v
        }
        _ => json!({"k": "fn", "mask": rng.next_u64() & 0xFFFFF}),
    }
}

fn eval(v: &Value, site: usize) -> bool {
    if v.is_null() {
        true
    } else {
        stack::eval(v, site, Ctx { cur_level: None })
    }
}
fn need(v: &Value) -> u8 {
    (0..sites::N).filter(|s| eval(v, *s)).map(|s| sites::SITES[s].0).max().unwrap_or(0)
}

impl Engine for ReloadEngine {
    fn name(&self) -> &'static str {
        "reload-sim"
    }
    fn props(&self) -> &'static [&'static str] {
        &["C12"]
    }
    fn modes(&self, _p: &str) -> Vec<String> {
        let mut m = vec!["must".to_string()];
        if finding_open("F24") {
            m.push("probe:F24".into());
        }
        m
    }
    fn classify_known(&self, plan: &Value, res: &RunResult) -> Option<String> {
        if plan["mode"] == "probe:F24" && finding_open("F24") && res.detail.contains("[F24-signature]") {
            return Some("F24 a rebuild of the max level that overlaps a reload between None and Some(..) reads the None layer's OFF hint and the \"is none\" marker under two separate lock acquisitions: the global max level is OFF until the racing reload's own rebuild finishes".into());
        }
        None
    }
    fn rule(&self, _p: &str) -> String {
        "reload handle around a global filter layer (inner or outer of the recording layer) or around a per-layer filter; <=6 reloads/modifies between {None, level, Targets table, EnvFilter directives, static closure} interleaved with <=30 emissions from the callsite pool on 2-3 threads, the reloads coming from one thread or (half of the scheduled runs) from any thread so that reloads overlap each other (modify-based reloads record when they store their value, which orders overlapping reloads for the oracle), an eighth of the reloads issued by a destructor while a caught panic unwinds, as total orders (op granularity) and under seeded schedules (sync granularity: lock shim, callsite-registry lock, every interest/MAX_LEVEL atomic); non-trivial = some callsite was delivered before a reload and suppressed after it (or vice versa) and at least one emission overlapped or followed a reload on another thread; distinct = distinct (plan, schedule digest)".into()
    }
    fn components(&self) -> Value {
        json!({"real": ["tracing_subscriber::reload::{Subscriber, Handle}", "Registry + Layered + Filtered", "callsite::rebuild_interest_cache", "tracing macros"], "stub": ["parking_lot RwLock (cooperative)", "recording layer"]})
    }
    fn generate(&self, g: &GenCtx) -> Value {
        let mut rng = Rng::new(g.seed);
        let mode = *rng.pick(&["g0", "g1", "filter"]);
        let sync = rng.chance(1, 2);
        let nthreads = rng.range(2, 3);
        let nreloads = rng.range(1, 6);
        let probe_f24 = g.mode == "probe:F24";
        let sync = sync || probe_f24;
        let multi_reloader = (sync && rng.chance(1, 2)) || probe_f24;
        let mode = if probe_f24 { *rng.pick(&["g0", "g1"]) } else { mode };
        // while F24 is open, must-hold runs with overlapping reloads never use the `None` value (the trigger is a
        // rebuild overlapping a None <-> Some reload of a global layer); the probe configuration uses it often
        let no_null = multi_reloader && finding_open("F24") && !probe_f24;
        let gen_value = |rng: &mut Rng| -> Value {
            loop {
                let v = if probe_f24 && rng.chance(1, 2) { Value::Null } else { gen_value(rng) };
                if !(no_null && v.is_null()) {
                    return v;
                }
            }
        };
        let nemit = rng.range(4, if g.tier == "thorough" { 30 } else { 20 });
        let pool: Vec<u64> = (0..rng.range(2, 6)).map(|_| rng.below(20)).collect();
        let mut steps = vec![];
        let total = nreloads + nemit;
        let mut reloads_left = nreloads;
        for i in 0..total {
            let remaining = total - i;
            if reloads_left > 0 && rng.below(remaining) < reloads_left {
                reloads_left -= 1;
                // under seeded schedules half of the runs reload from any thread, so reloads overlap each other
                let rt = if multi_reloader { rng.below(nthreads) } else { 0 };
                steps.push(json!({"t": rt, "op": "reload", "v": gen_value(&mut rng), "modify": rng.chance(1, 2), "unwind": rng.chance(1, 8)}));
            } else {
                steps.push(json!({"t": rng.below(nthreads), "op": if rng.chance(1, 4) { "span" } else { "event" }, "site": *rng.pick(&pool)}));
            }
        }
        let sched = if sync { Sched::swarm(&mut rng, 600) } else { Sched::op_order(rng.next_u64()) };
        json!({"engine": "reload", "prop": g.prop, "mode": g.mode, "cfg": {"mode": mode, "threads": nthreads, "initial": gen_value(&mut rng)}, "steps": steps, "sched": serde_json::to_value(&sched).unwrap(), "hang_is_violation": true})
    }

    fn execute(&self, plan: &Value) -> RunResult {
        let sched = plan_sched(plan);
        std::panic::set_hook(Box::new(|_| {}));
        let mode = plan["cfg"]["mode"].as_str().unwrap_or("g0").to_string();
        let nthreads = plan["cfg"]["threads"].as_u64().unwrap_or(2).max(1) as usize;
        let initial = plan["cfg"]["initial"].clone();
        let steps: Vec<Value> = plan["steps"].as_array().cloned().unwrap_or_default();
        let sync = sched.sync;
        let initial2 = initial.clone();
        let body = move || {
            let leaf = RecLayer::new(0, 0);
            leaf.cfg.walk.store(false, Ordering::SeqCst);
            let d = match mode.as_str() {
                "g0" => {
                    let v: G0 = if initial2.is_null() { None } else { Some(stack::build_global::<Registry>(&initial2)) };
                    let (l, h) = reload::Subscriber::new(v);
                    *HANDLE.lock().unwrap() = Some(Handles::G0(h));
                    Dispatch::new(Registry::default().with(l).with(leaf))
                }
                "g1" => {
                    let v: G1 = if initial2.is_null() { None } else { Some(stack::build_global::<CLeaf>(&initial2)) };
                    let (l, h) = reload::Subscriber::new(v);
                    *HANDLE.lock().unwrap() = Some(Handles::G1(h));
                    Dispatch::new(Registry::default().with(leaf).with(l))
                }
                _ => {
                    let v: F0 = if initial2.is_null() { None } else { Some(stack::build_filter::<Registry>(&initial2)) };
                    let (l, h) = reload::Subscriber::new(v);
                    *HANDLE.lock().unwrap() = Some(Handles::F(h));
                    Dispatch::new(Registry::default().with(leaf.with_filter(l)))
                }
            };
            let _ = dispatch::set_global_default(d.clone());
            let indexed: Vec<(usize, usize, Value)> = steps.iter().enumerate().map(|(gi, s)| (gi, (s["t"].as_u64().unwrap_or(0) as usize) % nthreads, s.clone())).collect();
            TURN.store(0, Ordering::SeqCst);
            let run = move |t: usize, mine: Vec<(usize, Value)>| {
                for (gi, s) in mine {
                    if sync {
                        detsim::op_boundary("op");
                    } else {
                        detsim::block_until("turn", None, || TURN.load(Ordering::SeqCst) == gi);
                    }
                    exec_step(gi, t, &s, !sync);
                    if !sync {
                        TURN.store(gi + 1, Ordering::SeqCst);
                        detsim::progress();
                    }
                }
            };
            let mut tids = vec![];
            for t in 1..nthreads {
                let mine: Vec<(usize, Value)> = indexed.iter().filter(|x| x.1 == t).map(|x| (x.0, x.2.clone())).collect();
                tids.push(detsim::spawn(&format!("t{t}"), move || run(t, mine)));
            }
            let mine: Vec<(usize, Value)> = indexed.iter().filter(|x| x.1 == 0).map(|x| (x.0, x.2.clone())).collect();
            run(0, mine);
            for id in tids {
                detsim::join(id);
            }
            // the collector cannot be dropped (it is the global default): the dropped-collector clause is
            // exercised with a second, private stack
            let leaf2 = RecLayer::new(1, 0);
            let (l2, h2) = reload::Subscriber::new(None::<BoxS<Registry>>);
            let d2 = Dispatch::new(Registry::default().with(l2).with(leaf2));
            drop(d2);
            let r = h2.reload(Some(stack::build_global::<Registry>(&json!({"k": "level", "thr": 1}))));
            let mut h = H { gi: 9_000_000, op: "reload_after_drop".into(), ..Default::default() };
            h.ok = r.is_ok();
            h.dropped_err = r.as_ref().err().map_or(false, |e| e.is_dropped());
            HIST.lock().unwrap().push(h);
        };
        let finish = move || {
            let hist = std::mem::take(&mut *HIST.lock().unwrap());
            let log = reclayer::take_llog();
            oracle(sync, &initial, &hist, &log);
        };
        simulate(&plan.to_string(), &sched, None, body, finish)
    }
}

fn oracle(sync: bool, initial: &Value, hist: &[H], log: &[LRec]) {
    let mut hist: Vec<H> = hist.to_vec();
    hist.sort_by_key(|h| h.inv);
    // value timeline: (inv, ret, value)
    let mut values: Vec<(u64, u64, Value)> = vec![(0, 0, initial.clone())];
    let mut wstamps: Vec<u64> = vec![0];
    for h in hist.iter().filter(|h| h.op == "reload") {
        if !h.ok {
            violation("reload-failed", format!("reload #{} returned an error although its collector is alive (is_dropped={})", h.gi, h.dropped_err));
            return;
        }
        values.push((h.inv, h.ret, h.value.clone()));
        wstamps.push(h.wstamp);
    }
    for h in hist.iter().filter(|h| h.op == "reload_after_drop") {
        if h.ok || !h.dropped_err {
            violation("reload-after-drop", format!("a reload handle whose collector is gone returned ok={} is_dropped={}", h.ok, h.dropped_err));
            return;
        }
    }
    let mut flipped = false;
    let mut cross = false;
    let mut verdicts: std::collections::HashMap<usize, bool> = Default::default();
    for h in hist.iter().filter(|h| h.op == "event" || h.op == "span") {
        // values possibly in effect during this emission
        let mut allowed: Vec<&Value> = vec![];
        for (i, (inv, _ret, v)) in values.iter().enumerate() {
            let started_before_end = *inv < h.ret;
            // (reloads may come from several threads and overlap: a value is out of the picture once a reload
            // that began after it had returned has itself returned before the emission began)
            let my_ret = values[i].1;
            let superseded = values.iter().enumerate().any(|(j, n)| j != i && my_ret < n.0 && n.1 < h.inv)
                // overlapping reloads whose store order is known: a value stored earlier is out once the reload that
                // stored the later one has returned (its rebuild came after both stores)
                || (i > 0 && wstamps[i] != 0 && values.iter().enumerate().any(|(j, n)| j != i && wstamps[j] > wstamps[i] && n.1 < h.inv))
                || (i == 0 && values.iter().enumerate().any(|(j, n)| j != 0 && n.1 < h.inv));
            if started_before_end && !superseded {
                allowed.push(v);
            }
        }
        let kind = if h.op == "event" { "on_event" } else { "on_new_span" };
        let got = log.iter().filter(|r| r.stack == 0 && r.kind == kind && r.val == h.uid).count();
        if got > 1 {
            violation("duplicate-delivery", format!("emission {} delivered {} times", h.gi, got));
            return;
        }
        let delivered = got == 1;
        let ok = allowed.iter().any(|v| eval(v, h.site) == delivered);
        if !ok {
            let class = if allowed.len() == 1 { "stale-after-return" } else { "neither-old-nor-new" };
            // F24: the global max level is OFF although no value in the whole history asks for that, and a `None`
            // value took part
            // (the OFF state heals when the racing reload's rebuild ends, so a reading of the max level taken
            // around the emission is only corroborating: the signature is the shape of the history)
            let overlapping_reloads = values.iter().enumerate().any(|(i, a)| values.iter().enumerate().any(|(j, b)| i != j && i > 0 && j > 0 && a.0 < b.1 && b.0 < a.1));
            let f24 = !delivered && values.iter().any(|v| v.2.is_null()) && overlapping_reloads;
            let _ = h.maxlvl;
            violation(class, format!("emission {} (t{}, {} at site {} = level {} target {}) was {} but the value(s) in effect {:?} all say otherwise{}", h.gi, h.t, h.op, h.site, sites::SITES[h.site].0, sites::TARGETS[sites::SITES[h.site].1 as usize], if delivered { "delivered" } else { "suppressed" }, allowed, if f24 { " [F24-signature]" } else { "" }));
            return;
        }
        if let Some(prev) = verdicts.insert(h.site, delivered) {
            if prev != delivered {
                flipped = true;
            }
        }
        if h.t != 0 && values.len() > 1 && values[1].0 < h.ret {
            cross = true;
        }
    }
    if !sync {
        for h in hist.iter().filter(|h| h.op == "reload" && h.maxlvl >= 0) {
            let n = need(&h.value) as i64;
            if h.maxlvl < n {
                violation("max-level-too-low", format!("after reload #{} returned LevelFilter::current()={} but the new value accepts level {}", h.gi, h.maxlvl, n));
                return;
            }
            if h.value["k"] == "level" && h.maxlvl != h.value["thr"].as_i64().unwrap_or(5) {
                violation("max-level-not-exact", format!("after reload #{} to level {} LevelFilter::current()={} with a single live collector", h.gi, h.value["thr"], h.maxlvl));
                return;
            }
        }
    }
    if flipped && cross {
        nontrivial();
    }
}
