#!/bin/bash
# confirm_seed_unit.sh <PROP> <seed dir> <worktree> <source file (relative)> <crate> [extra cargo args]
# For demonstrations that are unit tests to be appended inside the last `mod` of a source file.
set -u
PROP=$1; DIR=$2; WT=$3; SRC=$4; CRATE=$5; EXTRA=${6:-}
LOG=$DIR/confirm.log; : > $LOG
cd $WT || exit 2
git checkout -q -- . && git clean -fdq
insert() { python3 - "$SRC" "$DIR/demo.rs" <<'PY'
import sys
src,demo=sys.argv[1],sys.argv[2]
s=open(src).read().rstrip()
assert s.endswith('}')
d=open(demo).read()
open(src,'w').write(s[:-1]+"\n"+d+"\n}\n")
PY
}
insert

cargo test --offline -p $CRATE $EXTRA --lib > $DIR/without.log 2>&1; W=$?
git checkout -q -- .
git apply $DIR/patch.diff || { echo "PATCH DOES NOT APPLY" >> $LOG; exit 1; }
cargo test --offline -p $CRATE $EXTRA --lib --tests > $DIR/suite.log 2>&1; S=$?
insert
cargo test --offline -p $CRATE $EXTRA --lib > $DIR/with.log 2>&1; P=$?
echo "lib tests incl. demo without patch exit=$W (want 0); with patch exit=$P (want !=0); existing suite with patch exit=$S (want 0)" >> $LOG
git checkout -q -- . && git clean -fdq
if [ $W -eq 0 ] && [ $P -ne 0 ] && [ $S -eq 0 ]; then echo CONFIRMED >> $LOG; else echo NOT-CONFIRMED >> $LOG; fi
cat $LOG
