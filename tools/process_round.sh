#!/bin/bash
# process_round.sh <worktree prefix> <runs> <PROP>...   — confirm every /tmp/seed-P/mN in its worktree, then try each against P's check
PFX=$1; RUNS=$2; shift 2
for p in "$@"; do (for m in m1 m2 m3; do [ -f /tmp/seed-$p/$m/patch.diff ] && /verif/tools/confirm_any.sh $p /tmp/seed-$p/$m $PFX-$p; done) > /tmp/r2/confirm-$p.log 2>&1 & done; wait
for p in "$@"; do for m in m1 m2 m3; do [ -f /tmp/seed-$p/$m/confirm.log ] && echo "$p $m: $(tail -1 /tmp/seed-$p/$m/confirm.log)"; done; done
for p in "$@"; do for m in m1 m2 m3; do [ -f /tmp/seed-$p/$m/patch.diff ] || continue; echo "== $p $m"; /verif/tools/try_seed.sh $p /tmp/seed-$p/$m/patch.diff $RUNS | grep -v "^KNOWN" | cut -c1-330; done; done
