//! stack-sim, part 1: C07 — per-layer filters are isolated. Real Registry/Layered/Filtered/combinators/
//! Targets/EnvFilter/FilterFn/DynFilterFn/Vec/Option/Box under the real macros.
use crate::driver::finding_open;
use crate::fw::*;
use crate::reclayer::{self, LRec, RecLayer};
use crate::sites;
use crate::stack::{self, Ctx, StackModel};
use detsim::Rng;
use serde_json::{json, Value};
use std::collections::{BTreeMap, HashMap};
use std::sync::atomic::{AtomicUsize, Ordering};
use std::sync::Mutex;
use tracing::Span;
use tracing_core::dispatch::{self, Dispatch};

pub struct StackEngine;

#[derive(Clone, Debug, Default)]
pub struct H {
    pub gi: usize,
    pub t: usize,
    pub stack: usize,
    pub op: String,
    pub inv: u64,
    pub ret: u64,
    pub applied: bool,
    pub uid: u64,
    pub site: usize,
    pub slot: usize,
    pub id: u64,
    pub res_bool: bool,
    pub enabled_handle: bool,
    /// per-layer filter `enabled` evaluations on this thread during the operation
    pub evals: u64,
    /// uid of the explicit parent of an `event_in`
    pub par_uid: u64,
    /// the event carries the value a `VetoVal` layer vetoes
    pub vetoed: bool,
}
pub static HIST: Mutex<Vec<H>> = Mutex::new(Vec::new());
static TURN: AtomicUsize = AtomicUsize::new(0);
pub static NO_DROP_WHILE_ENTERED: AtomicUsize = AtomicUsize::new(0);
const NSLOTS: usize = 8;

struct SlotE {
    span: Span,
    uid: u64,
}
static SLOTS: Mutex<Vec<Vec<Option<SlotE>>>> = Mutex::new(Vec::new()); // per stack

struct PanicOnDebug;
impl std::fmt::Debug for PanicOnDebug {
    fn fmt(&self, _f: &mut std::fmt::Formatter<'_>) -> std::fmt::Result {
        panic!("injected panic in a field's Debug impl")
    }
}
fn boom() -> u64 {
    panic!("injected panic while evaluating a field expression")
}

pub fn exec_step(gi: usize, t: usize, stack: usize, s: &Value, entered: &mut Vec<(u64, tracing_core::span::Id, Dispatch)>) {
    let op = s["op"].as_str().unwrap_or("").to_string();
    let slot = s["slot"].as_u64().unwrap_or(0) as usize % NSLOTS;
    let site = s["site"].as_u64().unwrap_or(0) as usize % sites::N;
    let uid = (gi as u64 + 1) * 1000;
    let mut h = H { gi, t, stack, op: op.clone(), applied: true, site, slot, ..Default::default() };
    let evals0 = stack::FILTER_EVALS.with(|e| e.get());
    h.inv = detsim::stamp();
    match op.as_str() {
        "span" => {
            let occupied = SLOTS.lock().unwrap()[stack][slot].is_some();
            if occupied {
                h.applied = false;
            } else {
                let sp = sites::make_span(site, uid);
                h.uid = uid;
                h.id = sp.id().map(|i| i.into_u64()).unwrap_or(0);
                h.enabled_handle = !sp.is_disabled();
                SLOTS.lock().unwrap()[stack][slot] = Some(SlotE { span: sp, uid });
            }
        }
        "enter" => {
            let x = SLOTS.lock().unwrap()[stack][slot].take();
            match x {
                Some(e) => {
                    h.uid = e.uid;
                    let already = entered.iter().any(|x| x.0 == e.uid);
                    if already {
                        h.applied = false;
                    } else if let Some((id, d)) = e.span.with_collector(|(id, d)| (id.clone(), d.clone())) {
                        h.id = id.into_u64();
                        d.enter(&id);
                        entered.push((e.uid, id, d));
                    } else {
                        h.applied = false;
                    }
                    SLOTS.lock().unwrap()[stack][slot] = Some(e);
                }
                None => h.applied = false,
            }
        }
        "exit" => match entered.pop() {
            Some((u, id, d)) => {
                h.uid = u;
                h.id = id.into_u64();
                d.exit(&id);
            }
            None => h.applied = false,
        },
        "record" => {
            let x = SLOTS.lock().unwrap()[stack][slot].take();
            match x {
                Some(e) => {
                    h.uid = e.uid;
                    e.span.record("late", uid);
                    SLOTS.lock().unwrap()[stack][slot] = Some(e);
                }
                None => h.applied = false,
            }
        }
        "drop" => {
            let x = SLOTS.lock().unwrap()[stack][slot].take();
            match x {
                Some(e) => {
                    h.uid = e.uid;
                    if NO_DROP_WHILE_ENTERED.load(Ordering::SeqCst) != 0 && entered.iter().any(|x| x.0 == e.uid) {
                        // while F13 is open, must-hold runs never make an exit the operation that closes a span
                        h.applied = false;
                        SLOTS.lock().unwrap()[stack][slot] = Some(e);
                    } else {
                        drop(e.span);
                    }
                }
                None => h.applied = false,
            }
        }
        "event" => {
            h.uid = uid;
            sites::emit_event(site, uid);
        }
        "event_vetoed" => {
            // an ordinary event unless the stack has a vetoing layer: then `event_enabled` stops it after the
            // per-layer filters have been asked
            h.uid = uid + 999;
            h.vetoed = true;
            h.op = "event".into();
            sites::emit_event(site, uid + 999);
        }
        "event_in" => {
            // an event whose parent is named explicitly: a span held in a slot, entered or not
            let x = SLOTS.lock().unwrap()[stack][slot].take();
            match x {
                Some(e) if !e.span.is_disabled() => {
                    h.uid = uid;
                    h.par_uid = e.uid;
                    h.op = "event".into();
                    sites::emit_event_in(site, uid, &e.span);
                    SLOTS.lock().unwrap()[stack][slot] = Some(e);
                }
                Some(e) => {
                    h.applied = false;
                    SLOTS.lock().unwrap()[stack][slot] = Some(e);
                }
                None => h.applied = false,
            }
        }
        "probe" => {
            h.res_bool = sites::probe(site);
        }
        "abort_event" => {
            // the enabled check passes (or not), then evaluating the field values panics; the caller catches it
            h.uid = uid;
            fault("panic_in_field_value");
            let r = std::panic::catch_unwind(|| {
                tracing::event!(target: "app", tracing::Level::ERROR, site = 0u64, val = boom());
            });
            h.res_bool = r.is_err();
            h.site = 0;
        }
        _ => h.applied = false,
    }
    h.ret = detsim::stamp();
    h.evals = stack::FILTER_EVALS.with(|e| e.get()) - evals0;
    ev(format!("op {gi} t{t} S{stack} {op} slot{slot} site{site} applied={} uid={} id={} b={}", h.applied, h.uid, h.id, h.res_bool));
    HIST.lock().unwrap().push(h);
}

fn gen_leafish(rng: &mut Rng, next_leaf: &mut u64, depth: u32, flags: u8) -> Value {
    let leaf = |next_leaf: &mut u64| {
        let id = *next_leaf;
        *next_leaf += 1;
        json!({"k": "leaf", "id": id})
    };
    if *next_leaf >= 5 || depth >= 3 {
        return leaf(next_leaf);
    }
    match rng.below(12) {
        0..=3 => leaf(next_leaf),
        4..=6 => {
            // dynamic (context) filters only directly on a leaf, so that the leaf's view is exactly "spans it received"
            let c = gen_leafish(rng, next_leaf, depth + 1, flags | 4);
            let direct_leaf = c["k"] == "leaf";
            json!({"k": "filtered", "f": stack::gen_filter(rng, 0, direct_leaf), "c": c})
        }
        7 => {
            let n = rng.range(1, 3);
            let mut cs: Vec<Value> = (0..n).map(|_| gen_leafish(rng, next_leaf, depth + 1, flags)).collect();
            // (not below a per-layer filter: there a plain filter is only consulted when that filter accepts)
            if flags & 2 != 0 && flags & 4 == 0 && rng.chance(1, 3) {
                // a plain (global) filter as a member of the Vec
                let pos = rng.below(cs.len() as u64 + 1) as usize;
                cs.insert(pos, json!({"k": "global", "f": stack::gen_global(rng)}));
            }
            json!({"k": "vec", "cs": cs})
        }
        8 => json!({"k": "some", "c": gen_leafish(rng, next_leaf, depth + 1, flags)}),
        9 => json!({"k": "box", "c": gen_leafish(rng, next_leaf, depth + 1, flags)}),
        10 => {
            let mut a = gen_leafish(rng, next_leaf, depth + 1, flags);
            let mut b = gen_leafish(rng, next_leaf, depth + 1, flags);
            if flags & 1 == 0 {
                // while F14 is open, must-hold stacks never and_then a None layer
                if a["k"] == "none" {
                    a = json!({"k": "identity"});
                }
                if b["k"] == "none" {
                    b = json!({"k": "identity"});
                }
            }
            json!({"k": "and_then", "a": a, "b": b})
        }
        _ => {
            // while F14 is open, must-hold stacks contain None layers only as top-level groups
            if rng.chance(1, 2) && (flags & 1 != 0 || depth == 0) {
                json!({"k": "none"})
            } else {
                leaf(next_leaf)
            }
        }
    }
}

/// A filtered subtree nested inside another filtered subtree makes a leaf's path carry two filters; context
/// filters are only generated directly above a leaf, but an outer static filter may sit above that.
fn gen_flags() -> u8 {
    (!finding_open("F14")) as u8 | ((!finding_open("F7")) as u8) << 1
}

fn gen_groups(rng: &mut Rng, mode: &str) -> Vec<Value> {
    let ngroups = rng.range(1, 3);
    let mut next_leaf = 0u64;
    let mut groups = vec![];
    for _ in 0..ngroups {
        let g = match rng.below(6) {
            0 => json!({"k": "global", "f": stack::gen_global(rng)}),
            1 => json!({"k": "and_then", "a": {"k": "global", "f": stack::gen_global(rng)}, "b": gen_leafish(rng, &mut next_leaf, 1, gen_flags())}),
            _ => gen_leafish(rng, &mut next_leaf, 0, gen_flags()),
        };
        groups.push(g);
    }
    if next_leaf == 0 {
        groups.push(json!({"k": "leaf", "id": 0}));
    }
    if groups.len() < 4 && rng.chance(1, 4) {
        // a plain layer, somewhere in the stack, that vetoes marked events through `event_enabled`
        let at = rng.below(groups.len() as u64 + 1) as usize;
        groups.insert(at, json!({"k": "veto"}));
    }
    if mode == "probe:F14" {
        groups = vec![
            json!({"k": "and_then", "a": {"k": "filtered", "f": {"k": "level", "thr": rng.range(1, 4)}, "c": {"k": "leaf", "id": 1}}, "b": {"k": "none"}}),
            json!({"k": "leaf", "id": 0}),
        ];
    }
    if mode == "probe:F7" {
        // the F7 trigger: a plain vetoing filter inside a Vec next to a layer that answers `always`
        groups = vec![json!({"k": "vec", "cs": [{"k": "global", "f": {"k": "level", "thr": rng.range(1, 3)}}, {"k": "leaf", "id": 0}]})];
    }
    groups
}

fn gen_workload(rng: &mut Rng, t: u64, n: u64, probes: bool) -> Vec<Value> {
    let mut v = vec![];
    let mut has = vec![false; NSLOTS];
    let mut depth = 0;
    // half of the operations concentrate on one slot so that create / enter / create-inside chains form
    let hot = rng.below(NSLOTS as u64) as usize;
    if rng.chance(1, 4) {
        // a chain 3-4 deep at seeded sites (so that some leaves miss spans in its middle), then events below it:
        // contextual, and with one of the chain's spans as explicit parent
        let k = rng.range(3, 4).min(NSLOTS as u64);
        for i in 0..k {
            v.push(json!({"t": t, "op": "span", "slot": i, "site": rng.below(20)}));
            v.push(json!({"t": t, "op": "enter", "slot": i}));
            has[i as usize] = true;
            depth += 1;
        }
        v.push(json!({"t": t, "op": "event", "site": rng.below(20)}));
        v.push(json!({"t": t, "op": "event_in", "slot": rng.below(k), "site": rng.below(20)}));
        v.push(json!({"t": t, "op": "span", "slot": (k as usize) % NSLOTS, "site": rng.below(20)}));
    }
    for _ in 0..n {
        let slot = if rng.chance(1, 2) { hot } else { rng.below(NSLOTS as u64) as usize };
        let site = rng.below(20);
        let st = match rng.below(100) {
            0..=19 => {
                if !has[slot] {
                    has[slot] = true;
                }
                json!({"t": t, "op": "span", "slot": slot, "site": site})
            }
            20..=34 => {
                depth += 1;
                json!({"t": t, "op": "enter", "slot": slot})
            }
            35..=46 => {
                if depth > 0 {
                    depth -= 1;
                }
                json!({"t": t, "op": "exit"})
            }
            47..=52 => json!({"t": t, "op": "record", "slot": slot}),
            53..=60 => {
                has[slot] = false;
                json!({"t": t, "op": "drop", "slot": slot})
            }
            61..=68 => {
                if probes {
                    if rng.chance(1, 4) {
                        json!({"t": t, "op": "abort_event"})
                    } else {
                        json!({"t": t, "op": "probe", "site": site})
                    }
                } else {
                    json!({"t": t, "op": "event", "site": site})
                }
            }
            _ => {
                if rng.chance(1, 5) {
                    json!({"t": t, "op": "event_in", "slot": slot, "site": site})
                } else if rng.chance(1, 6) {
                    json!({"t": t, "op": "event_vetoed", "site": site})
                } else {
                    json!({"t": t, "op": "event", "site": site})
                }
            }
        };
        v.push(st);
    }
    v
}

impl Engine for StackEngine {
    fn name(&self) -> &'static str {
        "stack-sim"
    }
    fn props(&self) -> &'static [&'static str] {
        &["C07"]
    }
    fn modes(&self, _prop: &str) -> Vec<String> {
        let mut m = vec!["must".to_string()];
        if finding_open("F3") {
            m.push("probe:F3".into());
        }
        if finding_open("F7") {
            m.push("probe:F7".into());
        }
        if finding_open("F13") {
            m.push("probe:F13".into());
        }
        if finding_open("F14") {
            m.push("probe:F14".into());
        }
        if finding_open("F34") {
            m.push("probe:F34".into());
        }
        m
    }
    fn mode_weight(&self, _p: &str, mode: &str) -> u32 {
        match mode {
            "must" => 8,
            "probe:F3" => 2,
            _ => 1,
        }
    }
    fn rule(&self, _p: &str) -> String {
        "configuration = 1-3 top-level groups over the Registry built from {recording leaf, global filter layer, per-layer-filtered subtree, Vec, Some/None, Box, and_then, a plain layer that vetoes marked events through event_enabled} with filters from {level, Targets table, EnvFilter directives, static closure, context closure, and/or/not}; history = spans (create/enter/exit/record/drop; a quarter of the runs start with a chain 3-4 deep), events (contextual, explicit parent, vetoed), enabled! probes and emissions aborted by a panicking field expression, on one thread or with two different stacks on two threads; non-trivial = some leaf received an emission that another leaf of the same stack did not, and at least one span was hidden from some leaf while entered; distinct = distinct plan digest".into()
    }
    fn components(&self) -> Value {
        json!({"real": ["Registry", "Layered (as Collect and as Subscribe)", "Filtered + FilterState/FILTERING", "combinators And/Or/Not", "Targets", "EnvFilter", "FilterFn/DynFilterFn", "Vec/Option/Box impls", "tracing macros + interest cache"],
               "stub": ["recording leaves (RecLayer)"]})
    }

    fn generate(&self, g: &GenCtx) -> Value {
        let mut rng = Rng::new(g.seed);
        let two = rng.chance(1, 3);
        let stacks: Vec<Value> = (0..if two { 2 } else { 1 }).map(|_| json!(gen_groups(&mut rng, &g.mode))).collect();
        let probes = g.mode == "probe:F3" || !finding_open("F3");
        let f13_guard = finding_open("F13") && g.mode != "probe:F13";
        let n = rng.range(6, if g.tier == "thorough" { 40 } else { 28 });
        let mut steps = vec![];
        if two {
            let a = gen_workload(&mut rng, 0, n / 2 + 1, probes);
            let b = gen_workload(&mut rng, 1, n / 2 + 1, probes);
            // interleave the two threads' histories in a seeded total order
            let (mut i, mut j) = (0, 0);
            while i < a.len() || j < b.len() {
                if j >= b.len() || (i < a.len() && rng.chance(1, 2)) {
                    steps.push(a[i].clone());
                    i += 1;
                } else {
                    steps.push(b[j].clone());
                    j += 1;
                }
            }
        } else {
            steps = gen_workload(&mut rng, 0, n, probes);
        }
        let sched = Sched::op_order(rng.next_u64());
        // re-entrancy: a leaf that emits an event of its own from inside its `register_callsite` (drawn last, so that the
        // rest of the plan is what it would have been). While F34 is open, must-hold runs (a sixth of them) place such a
        // leaf, under a per-layer filter of its own, as a new outermost group - the first to be asked in a registration
        // pass, so that no other filter's interest is pending when it re-enters; the probe marks leaves anywhere
        let mut stacks = stacks;
        fn count_leaves(v: &Value) -> u64 {
            match v {
                Value::Array(a) => a.iter().map(count_leaves).sum(),
                Value::Object(o) if o.get("k").and_then(|k| k.as_str()) == Some("leaf") => 1,
                Value::Object(o) => o.values().map(count_leaves).sum(),
                _ => 0,
            }
        }
        fn mark(v: &mut Value, rng: &mut Rng) {
            match v {
                Value::Array(a) => a.iter_mut().for_each(|x| mark(x, rng)),
                Value::Object(o) => {
                    if o.get("k").and_then(|k| k.as_str()) == Some("leaf") {
                        if rng.chance(1, 3) {
                            o.insert("emit".into(), json!(true));
                        }
                    } else {
                        o.values_mut().for_each(|x| mark(x, rng));
                    }
                }
                _ => {}
            }
        }
        if g.mode == "probe:F34" || (g.mode == "must" && !finding_open("F34") && rng.chance(1, 6)) {
            stacks.iter_mut().for_each(|s| mark(s, &mut rng));
        } else if g.mode == "must" && rng.chance(1, 6) {
            for st in stacks.iter_mut() {
                let n = count_leaves(st);
                if let Some(groups) = st.as_array_mut() {
                    if groups.len() < 3 && n < 6 {
                        let f = stack::gen_filter(&mut rng, 0, false);
                        groups.push(json!({"k": "filtered", "f": f, "c": {"k": "leaf", "id": n, "emit": true}}));
                    }
                }
            }
        }
        json!({"engine": "stack", "prop": g.prop, "mode": g.mode, "cfg": {"stacks": stacks, "f13_guard": f13_guard}, "steps": steps, "sched": serde_json::to_value(&sched).unwrap()})
    }

    fn simplify(&self, plan: &Value) -> Vec<Value> {
        // try replacing each stack's groups by single groups
        let mut out = vec![];
        if let Some(stacks) = plan["cfg"]["stacks"].as_array() {
            for (si, st) in stacks.iter().enumerate() {
                if let Some(groups) = st.as_array() {
                    if groups.len() > 1 {
                        for gi in 0..groups.len() {
                            let mut c = plan.clone();
                            c["cfg"]["stacks"][si].as_array_mut().unwrap().remove(gi);
                            out.push(c);
                        }
                    }
                }
            }
        }
        out
    }

    fn classify_known(&self, plan: &Value, res: &RunResult) -> Option<String> {
        if plan["mode"] == "probe:F3" && finding_open("F3") && res.detail.contains("[F3-signature]") {
            return Some("F3 an enabled! probe (or an emission aborted before dispatch) that a per-layer filter rejects leaves that filter's bit set; the next `always` emission on the thread is skipped for that layer".into());
        }
        if plan["mode"] == "probe:F13" && finding_open("F13") && res.detail.contains("[F13-signature]") {
            return Some("F13 when an exit releases the last reference, on_close runs before the outer layers' on_exit, and per-layer-filtered layers never receive that on_exit".into());
        }
        if plan["mode"] == "probe:F14" && finding_open("F14") && res.detail.contains("[F14-signature]") {
            return Some("F14 a per-layer filter's max-level hint is applied globally when the filtered layer is combined with a None layer through and_then".into());
        }
        if plan["mode"] == "probe:F34" && finding_open("F34") && matches!(res.class.as_str(), "leaf-spurious" | "leaf-missed") && plan["cfg"]["stacks"].to_string().contains("\"emit\":true") {
            return Some("F34 a layer that emits from inside its own register_callsite makes the registry consume the per-layer interest other filters had pending for the callsite being registered".into());
        }
        if plan["mode"] == "probe:F7" && finding_open("F7") && res.detail.contains("[F7-signature]") {
            return Some("F7 Vec::register_callsite returns the highest interest while Vec::enabled is all(..)".into());
        }
        None
    }

    fn execute(&self, plan: &Value) -> RunResult {
        let sched = plan_sched(plan);
        let stacks: Vec<Vec<Value>> = plan["cfg"]["stacks"].as_array().cloned().unwrap_or_default().iter().map(|s| s.as_array().cloned().unwrap_or_default()).collect();
        let steps: Vec<Value> = plan["steps"].as_array().cloned().unwrap_or_default();
        let nthreads = stacks.len().max(1);
        std::panic::set_hook(Box::new(|_| {}));
        NO_DROP_WHILE_ENTERED.store(plan["cfg"]["f13_guard"].as_bool().unwrap_or(false) as usize, Ordering::SeqCst);
        let stacks2 = stacks.clone();
        let body = move || {
            let mut dispatches = vec![];
            for (si, groups) in stacks2.iter().enumerate() {
                let mut leaves = vec![];
                dispatches.push(stack::build_dispatch(si, groups, &mut leaves));
            }
            *SLOTS.lock().unwrap() = (0..nthreads).map(|_| (0..NSLOTS).map(|_| None).collect()).collect();
            let indexed: Vec<(usize, usize, Value)> = steps.iter().enumerate().map(|(gi, s)| (gi, (s["t"].as_u64().unwrap_or(0) as usize) % nthreads, s.clone())).collect();
            TURN.store(0, Ordering::SeqCst);
            let run = |t: usize, d: Dispatch, mine: Vec<(usize, Value)>| {
                let _g = dispatch::set_default(&d);
                let mut entered = vec![];
                for (gi, s) in mine {
                    detsim::block_until("turn", None, || TURN.load(Ordering::SeqCst) == gi);
                    exec_step(gi, t, t, &s, &mut entered);
                    TURN.store(gi + 1, Ordering::SeqCst);
                    detsim::progress();
                }
                let mut n = 0;
                while !entered.is_empty() {
                    exec_step(1_000_000 + t * 1000 + n, t, t, &json!({"op": "exit"}), &mut entered);
                    n += 1;
                }
                for slot in 0..NSLOTS {
                    exec_step(2_000_000 + t * 1000 + slot, t, t, &json!({"op": "drop", "slot": slot}), &mut entered);
                }
            };
            let mut tids = vec![];
            for t in 1..nthreads {
                let mine: Vec<(usize, Value)> = indexed.iter().filter(|x| x.1 == t).map(|x| (x.0, x.2.clone())).collect();
                let d = dispatches[t].clone();
                tids.push(detsim::spawn(&format!("t{t}"), move || run(t, d, mine)));
            }
            let mine: Vec<(usize, Value)> = indexed.iter().filter(|x| x.1 == 0).map(|x| (x.0, x.2.clone())).collect();
            run(0, dispatches[0].clone(), mine);
            for id in tids {
                detsim::join(id);
            }
        };
        let finish = move || {
            let hist = std::mem::take(&mut *HIST.lock().unwrap());
            let log = reclayer::take_llog();
            let models: Vec<StackModel> = stacks.iter().map(|g| stack::flatten(g)).collect();
            oracle(&hist, &log, &models, &stacks);
        };
        simulate(&plan.to_string(), &sched, None, body, finish)
    }
}

#[derive(Clone, Debug)]
struct MSpan {
    site: usize,
    id: u64,
    parent: u64,
    /// leaves that received it
    recv: Vec<usize>,
}

/// A5 stack delivery model.
fn has_f14_shape(v: &Value) -> bool {
    match v["k"].as_str().unwrap_or("") {
        "and_then" => {
            let none_child = v["a"]["k"] == "none" || v["b"]["k"] == "none";
            let filt = |x: &Value| x.to_string().contains("\"filtered\"");
            (none_child && (filt(&v["a"]) || filt(&v["b"]))) || has_f14_shape(&v["a"]) || has_f14_shape(&v["b"])
        }
        "filtered" | "some" | "box" => has_f14_shape(&v["c"]),
        "vec" => {
            let cs = v["cs"].as_array().cloned().unwrap_or_default();
            let none_child = cs.iter().any(|c| c["k"] == "none");
            let filt = cs.iter().any(|c| c.to_string().contains("\"filtered\""));
            (none_child && filt) || cs.iter().any(has_f14_shape)
        }
        _ => false,
    }
}

pub fn oracle(hist: &[H], log: &[LRec], models: &[StackModel], stacks: &[Vec<Value>]) {
    let mut hist: Vec<H> = hist.to_vec();
    hist.sort_by_key(|h| h.inv);
    let mut some_leaf_differs = false;
    let mut hidden_while_entered = false;
    for (si, model) in models.iter().enumerate() {
        let mut spans: BTreeMap<u64, MSpan> = BTreeMap::new();
        let mut stack_t: Vec<u64> = vec![]; // entered uids on this stack's thread (one thread per stack)
        // F3 signature tracking: a probe/abort that some PSF rejected, not yet followed by another enabled pass
        let mut dirty_leaves: Vec<usize> = vec![];
        let slog: Vec<&LRec> = log.iter().filter(|r| r.stack == si).collect();
        let f7_shape = model.globals.len() == 1 && models.len() >= 1;
        let f14_shape = stacks.get(si).map_or(false, |g| g.iter().any(has_f14_shape));
        for h in hist.iter().filter(|h| h.stack == si && h.applied) {
            // the thread's context, unfiltered and per leaf
            let cur_unf = stack_t.last().copied();
            let view = |leaf: usize, spans: &BTreeMap<u64, MSpan>| -> Option<u64> { stack_t.iter().rev().find(|u| spans.get(u).map_or(false, |s| s.recv.contains(&leaf))).copied() };
            let lvl_of = |u: Option<u64>, spans: &BTreeMap<u64, MSpan>| -> Option<u8> { u.and_then(|u| spans.get(&u)).map(|s| sites::SITES[s.site].0) };
            let decide = |site: usize, spans: &BTreeMap<u64, MSpan>| -> (bool, Vec<usize>) {
                let gctx = Ctx { cur_level: lvl_of(cur_unf, spans) };
                let global = model.globals.iter().all(|f| stack::eval(f, site, gctx));
                let mut recv = vec![];
                if global {
                    for l in &model.leaves {
                        let lctx = Ctx { cur_level: lvl_of(view(l.id, spans), spans) };
                        if l.path.iter().all(|f| stack::eval(f, site, lctx)) {
                            recv.push(l.id);
                        }
                    }
                }
                (global, recv)
            };
            match h.op.as_str() {
                "event" | "span" => {
                    let (_global, recv) = decide(h.site, &spans);
                    let recv = if h.vetoed && model.has_veto { vec![] } else { recv };
                    if !recv.is_empty() && recv.len() < model.leaves.len() {
                        some_leaf_differs = true;
                    }
                    let kind = if h.op == "event" { "on_event" } else { "on_new_span" };
                    let got: Vec<&&LRec> = slog.iter().filter(|r| r.kind == kind && r.val == h.uid).collect();
                    let mut got_leaves: Vec<usize> = got.iter().map(|r| r.layer).collect();
                    got_leaves.sort();
                    let mut want = recv.clone();
                    want.sort();
                    if got_leaves != want {
                        let missed: Vec<usize> = want.iter().filter(|l| !got_leaves.contains(l)).copied().collect();
                        let spurious: Vec<usize> = got_leaves.iter().filter(|l| !want.contains(l)).copied().collect();
                        // F3 needs an emission without an `enabled` pass (cached interest `always`): a pass rewrites every filter's bit
                        let f3 = !missed.is_empty() && spurious.is_empty() && missed.iter().all(|l| dirty_leaves.contains(l)) && h.evals == 0;
                        let f7 = missed.is_empty() && !spurious.is_empty() && f7_shape;
                        let f14 = f14_shape && !missed.is_empty() && spurious.is_empty() && missed.iter().all(|l| model.leaves.iter().any(|m| m.id == *l && m.path.is_empty()));
                        let sig = if f14 {
                            " [F14-signature]"
                        } else if f3 {
                            " [F3-signature]"
                        } else if f7 {
                            " [F7-signature]"
                        } else {
                            ""
                        };
                        let class = if !spurious.is_empty() { "leaf-spurious" } else { "leaf-missed" };
                        violation(class, format!("stack {si} op {} ({} at site {}): leaves {:?} should receive it, leaves {:?} did (missed {:?}, spurious {:?}){sig}", h.gi, h.op, h.site, want, got_leaves, missed, spurious));
                        return;
                    }
                    // a leaf that received this emission had a clean bit; others may still carry a stale one
                    dirty_leaves.retain(|l| !got_leaves.contains(l));
                    // what each recipient sees as its context
                    for r in &got {
                        let want_cur = view(r.layer, &spans).and_then(|u| spans.get(&u)).map(|s| s.id).unwrap_or(0);
                        if r.cur != want_cur {
                            let class = if want_cur == 0 || spans.values().any(|s| s.id == r.cur && !s.recv.contains(&r.layer)) { "hidden-span-visible" } else { "visible-span-hidden" };
                            violation(class, format!("stack {si} leaf {} inside {} (op {}): lookup_current() gave id {} but the spans this leaf received make it id {}", r.layer, kind, h.gi, r.cur, want_cur));
                            return;
                        }
                        if h.op == "event" {
                            // scope of the event: the leaf's current span, then parent links, minus hidden spans
                            let mut want_chain = vec![];
                            // (an explicit parent replaces the thread's current span as the start of the scope; if the
                            // leaf never received that parent, the event has no span at all for this leaf)
                            let mut u = if h.par_uid != 0 {
                                if spans.get(&h.par_uid).map_or(false, |s| s.recv.contains(&r.layer)) {
                                    h.par_uid
                                } else {
                                    0
                                }
                            } else {
                                view(r.layer, &spans).unwrap_or(0)
                            };
                            let want_evspan = spans.get(&u).map(|s| s.id).unwrap_or(0);
                            if h.par_uid != 0 && r.evspan != want_evspan {
                                let class = if want_evspan == 0 { "hidden-span-visible" } else { "visible-span-hidden" };
                                violation(class, format!("stack {si} leaf {} event op {} with explicit parent uid {}: event_span() gave id {} but this leaf's view makes it id {}", r.layer, h.gi, h.par_uid, r.evspan, want_evspan));
                                return;
                            }
                            while u != 0 {
                                match spans.get(&u) {
                                    Some(s) => {
                                        if s.recv.contains(&r.layer) {
                                            want_chain.push(s.id);
                                        }
                                        u = s.parent;
                                    }
                                    None => break,
                                }
                            }
                            if r.chain != want_chain {
                                violation("wrong-filtered-scope", format!("stack {si} leaf {} event op {}: event_scope() gave {:?}, expected {:?}", r.layer, h.gi, r.chain, want_chain));
                                return;
                            }
                        }
                    }
                    if h.op == "span" {
                        // whether the handle itself is enabled when every per-layer filter rejects is not part of
                        // the property (the registry keeps such spans); the model follows the observed handle
                        if h.enabled_handle {
                            if cur_unf.map_or(false, |c| spans.get(&c).map_or(false, |s| s.recv.len() < model.leaves.len())) {
                                hidden_while_entered = true;
                            }
                            spans.insert(h.uid, MSpan { site: h.site, id: h.id, parent: cur_unf.unwrap_or(0), recv });
                        }
                    }
                }
                "probe" | "abort_event" => {
                    let (global, recv) = decide(h.site, &spans);
                    // the value enabled! returns under per-layer filters is not defined by the property; what
                    // matters is that the probe does not disturb later emissions
                    // leaves whose per-layer filter rejected are left marked (F3) unless a global veto cleared the state
                    if global {
                        for l in model.leaves.iter().filter(|l| !l.path.is_empty() && !recv.contains(&l.id)) {
                            if !dirty_leaves.contains(&l.id) {
                                dirty_leaves.push(l.id);
                            }
                        }
                    }
                }
                "enter" | "exit" | "record" | "drop" => {
                    let sp = spans.get(&h.uid).cloned();
                    if let Some(sp) = sp {
                        let kind = match h.op.as_str() {
                            "enter" => "on_enter",
                            "exit" => "on_exit",
                            "record" => "on_record",
                            _ => "on_close",
                        };
                        let got: Vec<usize> = {
                            let mut v: Vec<usize> = slog.iter().filter(|r| r.kind == kind && r.id == sp.id && r.stamp > h.inv && r.stamp < h.ret).map(|r| r.layer).collect();
                            v.sort();
                            v
                        };
                        let mut want = sp.recv.clone();
                        want.sort();
                        let expect_now = match h.op.as_str() {
                            "drop" => !stack_t.contains(&h.uid) && !spans.values().any(|c| c.parent == h.uid && spans_open(&spans, c.id)),
                            _ => true,
                        };
                        if h.op != "drop" || expect_now {
                            if h.op == "drop" {
                                // handled by the close bookkeeping below
                            } else if got != want {
                                let class = if got.iter().any(|g| !want.contains(g)) { "lifecycle-to-non-recipient" } else { "lifecycle-missed" };
                                // F13 signature: this exit is the operation that closed the span
                                let closing_exit = h.op == "exit" && slog.iter().any(|r| r.kind == "on_close" && r.id == sp.id && r.stamp > h.inv && r.stamp < h.ret);
                                let sig = if closing_exit && class == "lifecycle-missed" { " [F13-signature]" } else { "" };
                                violation(class, format!("stack {si} op {} ({} span uid {}): leaves {:?} received the span, but {} went to {:?}{sig}", h.gi, h.op, h.uid, want, kind, got));
                                return;
                            }
                        }
                        match h.op.as_str() {
                            "enter" => stack_t.push(h.uid),
                            "exit" => {
                                if let Some(p) = stack_t.iter().rposition(|u| *u == h.uid) {
                                    stack_t.remove(p);
                                }
                            }
                            _ => {}
                        }
                        // what the recipients see from inside the lifecycle callback (after the registry
                        // applied the enter/exit): their own filtered view, never a span they did not receive
                        if matches!(h.op.as_str(), "enter" | "exit" | "record") {
                            for r in slog.iter().filter(|r| r.kind == kind && r.id == sp.id && r.stamp > h.inv && r.stamp < h.ret) {
                                let want_cur = stack_t.iter().rev().find(|u| spans.get(u).map_or(false, |s| s.recv.contains(&r.layer))).and_then(|u| spans.get(u)).map(|s| s.id).unwrap_or(0);
                                if r.cur != want_cur {
                                    let class = if spans.values().any(|s| s.id == r.cur && !s.recv.contains(&r.layer)) { "hidden-span-visible" } else { "visible-span-hidden" };
                                    violation(class, format!("stack {si} leaf {} inside {} of span uid {} (op {}): lookup_current() gave id {} but the spans this leaf received make it id {}", r.layer, kind, h.uid, h.gi, r.cur, want_cur));
                                    return;
                                }
                                if h.op == "record" {
                                    // nearest ancestor this leaf received
                                    let mut u = sp.parent;
                                    let mut want_parent = 0;
                                    while u != 0 {
                                        match spans.get(&u) {
                                            Some(s) => {
                                                if s.recv.contains(&r.layer) {
                                                    want_parent = s.id;
                                                    break;
                                                }
                                                u = s.parent;
                                            }
                                            None => break,
                                        }
                                    }
                                    if r.id2 != want_parent {
                                        violation("hidden-span-visible", format!("stack {si} leaf {} inside on_record of span uid {}: parent() gave id {} but the nearest ancestor this leaf received is id {}", r.layer, h.uid, r.id2, want_parent));
                                        return;
                                    }
                                }
                            }
                        }
                    }
                }
                _ => {}
            }
        }
        // close notifications: every created span's on_close goes to exactly its recipients, once
        for (u, sp) in &spans {
            let mut got: Vec<usize> = slog.iter().filter(|r| r.kind == "on_close" && r.id == sp.id).map(|r| r.layer).collect();
            got.sort();
            let mut want = sp.recv.clone();
            want.sort();
            if got != want {
                let class = if got.iter().any(|g| !want.contains(g)) { "lifecycle-to-non-recipient" } else { "lifecycle-missed" };
                violation(class, format!("stack {si} span uid {u}: leaves {:?} received the span, but on_close went to {:?}", want, got));
                return;
            }
        }
    }
    if some_leaf_differs && hidden_while_entered {
        nontrivial();
    }
    let _ = HashMap::<u8, u8>::new();
}

fn spans_open(_spans: &BTreeMap<u64, MSpan>, _id: u64) -> bool {
    true
}
