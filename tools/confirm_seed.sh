#!/bin/bash
# confirm_seed.sh <PROP> <seed dir (contains patch.diff, demo.rs, meta.json)> <worktree>
# Confirms in a scratch worktree: (1) patch applies and builds, (2) demo FAILS with the patch,
# (3) demo PASSES without it, (4) the touched crates' existing tests still pass with the patch.
set -u
PROP=$1; DIR=$2; WT=$3
LOG=$DIR/confirm.log
: > $LOG
cd $WT || exit 2
git checkout -q -- . && git clean -fdq
DEMO_PATH=$(python3 -c "import json;print(json.load(open('$DIR/meta.json'))['demo_path'])" | sed 's/ .*//')
DEMO_FILE=$(ls $DIR/demo*.rs $DIR/*.rs 2>/dev/null | head -1)
CRATE=$(echo $DEMO_PATH | cut -d/ -f1)
TESTNAME=$(basename $DEMO_PATH .rs)
echo "prop=$PROP demo_path=$DEMO_PATH crate=$CRATE test=$TESTNAME" >> $LOG
mkdir -p $(dirname $DEMO_PATH); cp $DEMO_FILE $DEMO_PATH
# without patch
cargo test --offline -p $CRATE ${CONFIRM_FEATURES:-} --test $TESTNAME -- --test-threads=1 > $DIR/without.log 2>&1; W=$?
git apply $DIR/patch.diff || { echo "PATCH DOES NOT APPLY" >> $LOG; exit 1; }
cargo test --offline -p $CRATE ${CONFIRM_FEATURES:-} --test $TESTNAME -- --test-threads=1 > $DIR/with.log 2>&1; P=$?
echo "demo without patch exit=$W (want 0); with patch exit=$P (want !=0)" >> $LOG
# existing tests with the patch (demo removed)
rm -f $DEMO_PATH
CRATES=$(git diff --name-only | cut -d/ -f1 | sort -u | sed 's/^/-p /' | tr '\n' ' ')
cargo test --offline --no-fail-fast $CRATES ${CONFIRM_FEATURES:-} --lib --tests > $DIR/suite.log 2>&1
FAILS=$(grep -E "^test .* \.\.\. FAILED" $DIR/suite.log | grep -vE "value_sets_with_fields_from_other_callsites_are_empty|test async_instrument " | wc -l)
echo "existing-suite failures with patch (excluding the baseline-failing one): $FAILS" >> $LOG
git checkout -q -- . && git clean -fdq
if [ $W -eq 0 ] && [ $P -ne 0 ] && [ $FAILS -eq 0 ]; then echo CONFIRMED >> $LOG; else echo NOT-CONFIRMED >> $LOG; fi
cat $LOG
