#!/bin/bash
# try_seed.sh <PROP> <patch.diff> [runs]  — apply a seeded change to /repo, run the property's quick check, undo.
PROP=$1; PATCH=$2; RUNS=${3:-40000}
cd /repo || exit 2
if [ -n "$(git status --porcelain)" ]; then echo "/repo not clean"; exit 2; fi
git apply $PATCH || { echo "patch does not apply"; exit 2; }
cd /verif && VERIF_ROOT=/tmp/tryseed-root ./check $PROP --runs $RUNS --no-evidence 2>&1 | grep -E "VIOLATION|class=|quick:|harness|error" | head -8
RC=${PIPESTATUS[0]}
git -C /repo checkout -- . && git -C /repo clean -fdq
echo "exit=$RC"
