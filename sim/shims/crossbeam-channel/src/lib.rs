//! Shim for the part of `crossbeam-channel` that `tracing-appender` uses.
//!
//! * `bounded(n > 0)`: FIFO of at most n items; `send` waits while full; `try_send` never waits;
//!   `send_timeout` waits until a *virtual* deadline; `recv` waits while empty and a sender lives.
//! * `bounded(0)`: rendezvous — a send completes only when a receiver has taken the item; a timed
//!   send withdraws the item at the deadline.
//! * disconnect on last drop of either side. Constructors, `Clone` and `Drop` are not scheduling
//!   points; every operation yields *before* it acts and never after it completed.
//! * every send/recv attempt is appended to a process-global log the harness can read.
use std::collections::VecDeque;
use std::fmt;
use std::sync::atomic::{AtomicUsize, Ordering};
use std::sync::{Arc, Mutex};
use std::time::Duration;

#[derive(Clone, Copy, Debug, PartialEq, Eq)]
pub enum VerifKind { SendOk, SendFull, SendDisconnected, SendTimeout, RecvOk, RecvEmpty, RecvDisconnected, SendWaited }
#[derive(Clone, Copy, Debug)]
pub struct VerifEvent { pub chan: usize, pub thread: usize, pub kind: VerifKind, pub stamp: u64, pub len_after: usize }
static LOG: Mutex<Vec<VerifEvent>> = Mutex::new(Vec::new());
static NEXT_CHAN: AtomicUsize = AtomicUsize::new(0);
#[doc(hidden)]
pub fn __verif_take_log() -> Vec<VerifEvent> { std::mem::take(&mut *LOG.lock().unwrap()) }
fn log(chan: usize, kind: VerifKind, len_after: usize) {
    let ev = VerifEvent { chan, thread: detsim::current(), kind, stamp: detsim::stamp(), len_after };
    LOG.lock().unwrap().push(ev);
}

struct Inner<T> {
    q: VecDeque<(u64, T)>,
    cap: usize,
    senders: usize,
    receivers: usize,
    next_ticket: u64,
}
struct Chan<T> { id: usize, m: Mutex<Inner<T>> }
impl<T> Chan<T> {
    fn lock(&self) -> std::sync::MutexGuard<'_, Inner<T>> { self.m.lock().unwrap_or_else(|p| p.into_inner()) }
}

pub struct Sender<T> { c: Arc<Chan<T>> }
pub struct Receiver<T> { c: Arc<Chan<T>> }

pub fn bounded<T>(cap: usize) -> (Sender<T>, Receiver<T>) {
    let c = Arc::new(Chan {
        id: NEXT_CHAN.fetch_add(1, Ordering::SeqCst),
        m: Mutex::new(Inner { q: VecDeque::new(), cap, senders: 1, receivers: 1, next_ticket: 0 }),
    });
    (Sender { c: c.clone() }, Receiver { c })
}
pub fn unbounded<T>() -> (Sender<T>, Receiver<T>) { bounded(usize::MAX) }

#[derive(PartialEq, Eq, Clone, Copy)]
pub struct SendError<T>(pub T);
#[derive(PartialEq, Eq, Clone, Copy)]
pub enum TrySendError<T> { Full(T), Disconnected(T) }
#[derive(PartialEq, Eq, Clone, Copy)]
pub enum SendTimeoutError<T> { Timeout(T), Disconnected(T) }
#[derive(PartialEq, Eq, Clone, Copy, Debug)]
pub struct RecvError;
#[derive(PartialEq, Eq, Clone, Copy, Debug)]
pub enum TryRecvError { Empty, Disconnected }
#[derive(PartialEq, Eq, Clone, Copy, Debug)]
pub enum RecvTimeoutError { Timeout, Disconnected }

impl<T> fmt::Debug for SendError<T> { fn fmt(&self, f: &mut fmt::Formatter<'_>) -> fmt::Result { f.write_str("SendError(..)") } }
impl<T> fmt::Display for SendError<T> { fn fmt(&self, f: &mut fmt::Formatter<'_>) -> fmt::Result { f.write_str("sending on a disconnected channel") } }
impl<T> std::error::Error for SendError<T> {}
impl<T> fmt::Debug for TrySendError<T> {
    fn fmt(&self, f: &mut fmt::Formatter<'_>) -> fmt::Result {
        match self { TrySendError::Full(_) => f.write_str("Full(..)"), TrySendError::Disconnected(_) => f.write_str("Disconnected(..)") }
    }
}
impl<T> fmt::Display for TrySendError<T> {
    fn fmt(&self, f: &mut fmt::Formatter<'_>) -> fmt::Result {
        match self { TrySendError::Full(_) => f.write_str("sending on a full channel"), TrySendError::Disconnected(_) => f.write_str("sending on a disconnected channel") }
    }
}
impl<T> std::error::Error for TrySendError<T> {}
impl<T> TrySendError<T> {
    pub fn into_inner(self) -> T { match self { TrySendError::Full(t) | TrySendError::Disconnected(t) => t } }
    pub fn is_full(&self) -> bool { matches!(self, TrySendError::Full(_)) }
    pub fn is_disconnected(&self) -> bool { matches!(self, TrySendError::Disconnected(_)) }
}
impl<T> fmt::Debug for SendTimeoutError<T> {
    fn fmt(&self, f: &mut fmt::Formatter<'_>) -> fmt::Result {
        match self { SendTimeoutError::Timeout(_) => f.write_str("Timeout(..)"), SendTimeoutError::Disconnected(_) => f.write_str("Disconnected(..)") }
    }
}
impl<T> fmt::Display for SendTimeoutError<T> {
    fn fmt(&self, f: &mut fmt::Formatter<'_>) -> fmt::Result {
        match self { SendTimeoutError::Timeout(_) => f.write_str("timed out waiting on send operation"), SendTimeoutError::Disconnected(_) => f.write_str("sending on a disconnected channel") }
    }
}
impl<T> std::error::Error for SendTimeoutError<T> {}
impl<T> SendTimeoutError<T> {
    pub fn into_inner(self) -> T { match self { SendTimeoutError::Timeout(t) | SendTimeoutError::Disconnected(t) => t } }
    pub fn is_timeout(&self) -> bool { matches!(self, SendTimeoutError::Timeout(_)) }
    pub fn is_disconnected(&self) -> bool { matches!(self, SendTimeoutError::Disconnected(_)) }
}
impl fmt::Display for RecvError { fn fmt(&self, f: &mut fmt::Formatter<'_>) -> fmt::Result { f.write_str("receiving on an empty and disconnected channel") } }
impl std::error::Error for RecvError {}
impl fmt::Display for TryRecvError {
    fn fmt(&self, f: &mut fmt::Formatter<'_>) -> fmt::Result {
        match self { TryRecvError::Empty => f.write_str("receiving on an empty channel"), TryRecvError::Disconnected => f.write_str("receiving on an empty and disconnected channel") }
    }
}
impl std::error::Error for TryRecvError {}
impl fmt::Display for RecvTimeoutError {
    fn fmt(&self, f: &mut fmt::Formatter<'_>) -> fmt::Result {
        match self { RecvTimeoutError::Timeout => f.write_str("timed out waiting on receive operation"), RecvTimeoutError::Disconnected => f.write_str("channel is empty and disconnected") }
    }
}
impl std::error::Error for RecvTimeoutError {}

enum SendOutcome<T> { Done, Disconnected(T), TimedOut(T) }

impl<T> Sender<T> {
    fn send_inner(&self, msg: T, deadline: Option<u64>) -> SendOutcome<T> {
        let c = &*self.c;
        let mut msg = Some(msg);
        let mut disconnected = false;
        let mut waited = false;
        let mut ticket = None;
        // phase 1: get the item into the queue (rendezvous: queue of capacity 1 used as the offer slot)
        let ok = detsim::block_until("chan:send:wait", deadline, || {
            let mut g = c.lock();
            if g.receivers == 0 { disconnected = true; return true; }
            let room = if g.cap == 0 { g.q.is_empty() } else { g.q.len() < g.cap };
            if room {
                let t = g.next_ticket; g.next_ticket += 1;
                g.q.push_back((t, msg.take().unwrap()));
                ticket = Some(t);
                true
            } else { waited = true; false }
        });
        if waited { log(c.id, VerifKind::SendWaited, 0); }
        if disconnected { return SendOutcome::Disconnected(msg.take().unwrap()); }
        if !ok { return SendOutcome::TimedOut(msg.take().unwrap()); }
        detsim::progress();
        let is_rdv = c.lock().cap == 0;
        if !is_rdv { return SendOutcome::Done; }
        // phase 2 (rendezvous only): wait until a receiver took it
        let t = ticket.unwrap();
        let mut lost_receiver = false;
        let taken = detsim::block_until("chan:send:rendezvous", deadline, || {
            let g = c.lock();
            if !g.q.iter().any(|(k, _)| *k == t) { return true; }
            if g.receivers == 0 { lost_receiver = true; return true; }
            false
        });
        if taken && !lost_receiver { return SendOutcome::Done; }
        // withdraw
        let mut g = c.lock();
        if let Some(pos) = g.q.iter().position(|(k, _)| *k == t) {
            let (_, m) = g.q.remove(pos).unwrap();
            drop(g);
            detsim::progress();
            if lost_receiver { SendOutcome::Disconnected(m) } else { SendOutcome::TimedOut(m) }
        } else {
            SendOutcome::Done
        }
    }
    pub fn send(&self, msg: T) -> Result<(), SendError<T>> {
        detsim::yield_point("chan:send");
        match self.send_inner(msg, None) {
            SendOutcome::Done => { let n = self.c.lock().q.len(); log(self.c.id, VerifKind::SendOk, n); Ok(()) }
            SendOutcome::Disconnected(m) | SendOutcome::TimedOut(m) => { log(self.c.id, VerifKind::SendDisconnected, 0); Err(SendError(m)) }
        }
    }
    pub fn try_send(&self, msg: T) -> Result<(), TrySendError<T>> {
        detsim::yield_point("chan:try_send");
        let c = &*self.c;
        let mut g = c.lock();
        if g.receivers == 0 { drop(g); log(c.id, VerifKind::SendDisconnected, 0); return Err(TrySendError::Disconnected(msg)); }
        if g.cap != 0 && g.q.len() < g.cap {
            let t = g.next_ticket; g.next_ticket += 1;
            g.q.push_back((t, msg));
            let n = g.q.len();
            drop(g);
            detsim::progress();
            log(c.id, VerifKind::SendOk, n);
            Ok(())
        } else {
            // a zero-capacity try_send succeeds only if a receiver is already waiting; not modelled
            // beyond "full" (tracing-appender never try_sends on its rendezvous channel)
            let n = g.q.len();
            drop(g);
            log(c.id, VerifKind::SendFull, n);
            Err(TrySendError::Full(msg))
        }
    }
    pub fn send_timeout(&self, msg: T, timeout: Duration) -> Result<(), SendTimeoutError<T>> {
        detsim::yield_point("chan:send_timeout");
        let deadline = detsim::now_ns().saturating_add(timeout.as_nanos() as u64);
        match self.send_inner(msg, Some(deadline)) {
            SendOutcome::Done => { let n = self.c.lock().q.len(); log(self.c.id, VerifKind::SendOk, n); Ok(()) }
            SendOutcome::Disconnected(m) => { log(self.c.id, VerifKind::SendDisconnected, 0); Err(SendTimeoutError::Disconnected(m)) }
            SendOutcome::TimedOut(m) => { log(self.c.id, VerifKind::SendTimeout, 0); Err(SendTimeoutError::Timeout(m)) }
        }
    }
    pub fn len(&self) -> usize { self.c.lock().q.len() }
    pub fn is_empty(&self) -> bool { self.len() == 0 }
    pub fn is_full(&self) -> bool { let g = self.c.lock(); g.q.len() >= g.cap }
    pub fn capacity(&self) -> Option<usize> { let c = self.c.lock().cap; if c == usize::MAX { None } else { Some(c) } }
    #[doc(hidden)]
    pub fn __verif_id(&self) -> usize { self.c.id }
}

impl<T> Receiver<T> {
    pub fn recv(&self) -> Result<T, RecvError> {
        detsim::yield_point("chan:recv");
        let c = &*self.c;
        let mut got = None;
        let mut disconnected = false;
        detsim::block_until("chan:recv:wait", None, || {
            let mut g = c.lock();
            if let Some((_, m)) = g.q.pop_front() { got = Some(m); return true; }
            if g.senders == 0 { disconnected = true; return true; }
            false
        });
        match got {
            Some(m) => { detsim::progress(); let n = c.lock().q.len(); log(c.id, VerifKind::RecvOk, n); Ok(m) }
            None => { let _ = disconnected; log(c.id, VerifKind::RecvDisconnected, 0); Err(RecvError) }
        }
    }
    pub fn try_recv(&self) -> Result<T, TryRecvError> {
        detsim::yield_point("chan:try_recv");
        let c = &*self.c;
        let mut g = c.lock();
        if let Some((_, m)) = g.q.pop_front() {
            let n = g.q.len();
            drop(g);
            detsim::progress();
            log(c.id, VerifKind::RecvOk, n);
            return Ok(m);
        }
        let disc = g.senders == 0;
        drop(g);
        if disc { log(c.id, VerifKind::RecvDisconnected, 0); Err(TryRecvError::Disconnected) } else { log(c.id, VerifKind::RecvEmpty, 0); Err(TryRecvError::Empty) }
    }
    pub fn recv_timeout(&self, timeout: Duration) -> Result<T, RecvTimeoutError> {
        detsim::yield_point("chan:recv_timeout");
        let deadline = detsim::now_ns().saturating_add(timeout.as_nanos() as u64);
        let c = &*self.c;
        let mut got = None;
        let mut disconnected = false;
        let ok = detsim::block_until("chan:recv:wait", Some(deadline), || {
            let mut g = c.lock();
            if let Some((_, m)) = g.q.pop_front() { got = Some(m); return true; }
            if g.senders == 0 { disconnected = true; return true; }
            false
        });
        match got {
            Some(m) => { detsim::progress(); let n = c.lock().q.len(); log(c.id, VerifKind::RecvOk, n); Ok(m) }
            None if ok && disconnected => Err(RecvTimeoutError::Disconnected),
            None => Err(RecvTimeoutError::Timeout),
        }
    }
    pub fn len(&self) -> usize { self.c.lock().q.len() }
    pub fn is_empty(&self) -> bool { self.len() == 0 }
    pub fn iter(&self) -> Iter<'_, T> { Iter { r: self } }
    pub fn try_iter(&self) -> TryIter<'_, T> { TryIter { r: self } }
    #[doc(hidden)]
    pub fn __verif_id(&self) -> usize { self.c.id }
}
pub struct Iter<'a, T> { r: &'a Receiver<T> }
impl<T> Iterator for Iter<'_, T> { type Item = T; fn next(&mut self) -> Option<T> { self.r.recv().ok() } }
pub struct TryIter<'a, T> { r: &'a Receiver<T> }
impl<T> Iterator for TryIter<'_, T> { type Item = T; fn next(&mut self) -> Option<T> { self.r.try_recv().ok() } }

impl<T> Clone for Sender<T> { fn clone(&self) -> Self { self.c.lock().senders += 1; Sender { c: self.c.clone() } } }
impl<T> Clone for Receiver<T> { fn clone(&self) -> Self { self.c.lock().receivers += 1; Receiver { c: self.c.clone() } } }
impl<T> Drop for Sender<T> {
    fn drop(&mut self) { let mut g = self.c.lock(); g.senders -= 1; drop(g); detsim::progress(); }
}
impl<T> Drop for Receiver<T> {
    fn drop(&mut self) {
        let mut g = self.c.lock();
        g.receivers -= 1;
        // as in crossbeam: when the last receiver goes, buffered messages are discarded
        let junk: Vec<_> = if g.receivers == 0 && g.cap != 0 { g.q.drain(..).collect() } else { Vec::new() };
        drop(g);
        drop(junk);
        detsim::progress();
    }
}
impl<T> fmt::Debug for Sender<T> { fn fmt(&self, f: &mut fmt::Formatter<'_>) -> fmt::Result { f.write_str("Sender { .. }") } }
impl<T> fmt::Debug for Receiver<T> { fn fmt(&self, f: &mut fmt::Formatter<'_>) -> fmt::Result { f.write_str("Receiver { .. }") } }
