//! core-sim: C01 (caches vs. the collector's own filter), C02 (scoped/global default), C04 (racing
//! registration and collector turnover). Real tracing-core + real macros; collectors are `RecCollect`.
use crate::driver::finding_open;
use crate::fw::*;
use crate::rec::{self, FilterSpec, Rec, RecCollect};
use crate::sites;
use detsim::Rng;
use serde_json::{json, Value};
use std::panic::{catch_unwind, AssertUnwindSafe};
use std::sync::atomic::{AtomicUsize, Ordering};
use std::sync::{Arc, Mutex};
use tracing_core::dispatch::{self, Dispatch};
use tracing_core::LevelFilter;

pub struct CoreEngine;

#[derive(Clone, Debug, Default)]
pub struct Hist {
    pub gi: usize,
    pub t: usize,
    pub op: String,
    pub k: i64,
    pub site: i64,
    pub kind: u8,
    pub val: u64,
    pub inv: u64,
    pub ret: u64,
    pub applied: bool,
    pub ok: bool,
    pub res_bool: bool,
    pub who: i64,
    pub maxlvl: i64,
    /// inner emissions of a `with` op: (site, kind, val, inv, ret)
    pub inner: Vec<(i64, u8, u64, u64, u64)>,
    pub panicked: bool,
    /// the emission was cut short by an injected panic in a collector's register_callsite
    pub rpanic: bool,
    /// site of the farewell event a collector created by this op emits from its destructor (-1: none)
    pub eod: i64,
}

pub static HIST: Mutex<Vec<Hist>> = Mutex::new(Vec::new());
pub static TURN: AtomicUsize = AtomicUsize::new(0);

pub struct Slots {
    pub handles: Vec<Option<Dispatch>>,
    pub filters: Vec<Option<FilterSpec>>,
}
pub static SLOTS: Mutex<Slots> = Mutex::new(Slots { handles: Vec::new(), filters: Vec::new() });

fn lvl_num(l: LevelFilter) -> i64 {
    if l == LevelFilter::OFF {
        0
    } else if l == LevelFilter::ERROR {
        1
    } else if l == LevelFilter::WARN {
        2
    } else if l == LevelFilter::INFO {
        3
    } else if l == LevelFilter::DEBUG {
        4
    } else {
        5
    }
}

pub fn whoami() -> i64 {
    dispatch::get_default(|d| d.downcast_ref::<RecCollect>().map(|c| c.k as i64).unwrap_or(-1))
}

fn do_emit(site: i64, kind: u8, val: u64) {
    if kind == 6 {
        // a span with an explicit (absent) parent: its own macro arm
        drop(sites::make_root_span(site as usize, val));
        return;
    }
    if kind == 7 {
        sites::emit_event_root(site as usize, val);
        return;
    }
    if kind >= 2 {
        // the less common macro forms (no `target:`); the generator gives them a site of target 0
        let level = sites::SITES[site as usize].0;
        sites::emit_event_form(kind as usize - 2, level, val);
        return;
    }
    if kind == 1 {
        let s = sites::make_span(site as usize, val);
        drop(s);
    } else {
        sites::emit_event(site as usize, val);
    }
}

/// Execute one plan step on the calling thread. `guards` is the thread's LIFO stack of scope guards.
pub fn exec_step(gi: usize, t: usize, s: &Value, guards: &mut Vec<dispatch::DefaultGuard>, record_max: bool) {
    let op = s["op"].as_str().unwrap_or("").to_string();
    let k = s["k"].as_i64().unwrap_or(-1);
    let site = s["site"].as_i64().unwrap_or(-1);
    let kind = s["kind"].as_u64().unwrap_or(0) as u8;
    let val = (gi as u64 + 1) * 1000;
    let mut h = Hist { gi, t, op: op.clone(), k, site, kind, val, applied: true, who: -2, maxlvl: -1, eod: s["eod"].as_i64().unwrap_or(-1), ..Default::default() };
    h.inv = detsim::stamp();
    match op.as_str() {
        "new" => {
            let f = FilterSpec::from_json(&s["f"]);
            let free = {
                let sl = SLOTS.lock().unwrap();
                (k as usize) < sl.handles.len() && sl.filters[k as usize].is_none()
            };
            if free {
                // `st`: a dispatcher over a `&'static` collector (`Dispatch::from_static`) instead of an owned one
                let d = if s["st"].as_bool().unwrap_or(false) {
                    let c: &'static RecCollect = Box::leak(Box::new(RecCollect::new(k as usize, f.clone())));
                    Dispatch::from_static(c)
                } else if let Some(n) = s["nested"].as_u64() {
                    // a collector that emits events of its own inside its `event` callback
                    Dispatch::new(RecCollect::new(k as usize, f.clone()).with_nested(n as u8))
                } else if let Some(site) = s["eod"].as_u64() {
                    // a collector that emits a farewell event from its own destructor
                    Dispatch::new(RecCollect::new(k as usize, f.clone()).with_emit_on_drop(site as usize))
                } else if s["late"].as_bool().unwrap_or(false) {
                    // a collector that configures its filter in `on_register_dispatch`
                    Dispatch::new(RecCollect::new(k as usize, f.clone()).with_late_init())
                } else {
                    Dispatch::new(RecCollect::new(k as usize, f.clone()))
                };
                let mut sl = SLOTS.lock().unwrap();
                sl.handles[k as usize] = Some(d);
                sl.filters[k as usize] = Some(f);
            } else {
                h.applied = false;
            }
        }
        "drop" => {
            let d = SLOTS.lock().unwrap().handles.get_mut(k as usize).and_then(|x| x.take());
            h.applied = d.is_some();
            drop(d);
        }
        "open" => {
            // `none`: a scope that silences its thread (`Dispatch::none()`), whatever the global default is
            let d = if s["none"].as_bool().unwrap_or(false) { Some(Dispatch::none()) } else { SLOTS.lock().unwrap().handles.get(k as usize).cloned().flatten() };
            match d {
                Some(d) => guards.push(dispatch::set_default(&d)),
                None => h.applied = false,
            }
        }
        "close" => match guards.pop() {
            Some(g) => drop(g),
            None => h.applied = false,
        },
        "with" => {
            let d = if s["none"].as_bool().unwrap_or(false) { Some(Dispatch::none()) } else { SLOTS.lock().unwrap().handles.get(k as usize).cloned().flatten() };
            match d {
                Some(d) => {
                    let inner: Vec<Value> = s["inner"].as_array().cloned().unwrap_or_default();
                    let do_panic = s["panic"].as_bool().unwrap_or(false);
                    let mut rec_inner = vec![];
                    let r = catch_unwind(AssertUnwindSafe(|| {
                        dispatch::with_default(&d, || {
                            for (j, e) in inner.iter().enumerate() {
                                let si = e["site"].as_i64().unwrap_or(0);
                                let ki = e["kind"].as_u64().unwrap_or(0) as u8;
                                let v = val + 1 + j as u64;
                                let a = detsim::stamp();
                                do_emit(si, ki, v);
                                let b = detsim::stamp();
                                rec_inner.push((si, ki, v, a, b));
                            }
                            if do_panic {
                                fault("panic_in_closure");
                                panic!("injected panic inside with_default");
                            }
                        })
                    }));
                    h.panicked = r.is_err();
                    h.inner = rec_inner;
                }
                None => h.applied = false,
            }
        }
        "global" => {
            let d = SLOTS.lock().unwrap().handles.get(k as usize).cloned().flatten();
            match d {
                Some(d) => h.ok = dispatch::set_global_default(d).is_ok(),
                None => h.applied = false,
            }
        }
        "emit" => {
            if s["rpanic"].as_bool().unwrap_or(false) {
                // fault: if this emission is the callsite's first hit, a collector's register_callsite panics
                // (caught); the emission is lost, but later hits of the callsite must be judged as ever
                crate::rec::PANIC_NEXT_REGISTER.with(|c| c.set(true));
                let r = catch_unwind(AssertUnwindSafe(|| do_emit(site, kind, val)));
                crate::rec::PANIC_NEXT_REGISTER.with(|c| c.set(false));
                h.panicked = r.is_err();
                h.rpanic = h.panicked;
            } else if s["cpanic"].as_bool().unwrap_or(false) {
                // fault: the collector's own callback panics (after recording the delivery); the panic is caught
                // around the emission, and the thread's dispatcher state must be as before afterwards
                crate::rec::PANIC_NEXT_CALLBACK.with(|c| c.set(true));
                let r = catch_unwind(AssertUnwindSafe(|| do_emit(site, kind, val)));
                crate::rec::PANIC_NEXT_CALLBACK.with(|c| c.set(false));
                h.panicked = r.is_err();
            } else {
                do_emit(site, kind, val)
            }
        }
        "probe" => h.res_bool = sites::probe(site as usize),
        "rebuild" => tracing_core::callsite::rebuild_interest_cache(),
        "flip" => {
            let d = SLOTS.lock().unwrap().handles.get(k as usize).cloned().flatten();
            match d.as_ref().and_then(|d| d.downcast_ref::<RecCollect>()) {
                Some(c) => {
                    c.flipped.fetch_xor(true, Ordering::SeqCst);
                    // a reloadable filter's owner announces the change, as `reload::Handle` does
                    if c.filter.is_reloadable() {
                        tracing_core::callsite::rebuild_interest_cache();
                    }
                }
                None => h.applied = false,
            }
        }
        "whoami" => h.who = whoami(),
        _ => h.applied = false,
    }
    h.ret = detsim::stamp();
    if record_max && matches!(op.as_str(), "new" | "drop" | "global" | "rebuild" | "open" | "close" | "flip") {
        h.maxlvl = lvl_num(LevelFilter::current());
    }
    ev(format!("op {gi} t{t} {op} k{k} s{site} applied={} ok={} b={} who={} max={}", h.applied, h.ok, h.res_bool, h.who, h.maxlvl));
    HIST.lock().unwrap().push(h);
}

pub fn run_plan_threads(nthreads: usize, pre: &[Value], steps: &[Value], sync: bool) {
    // the pre-phase runs on the main thread before any other thread exists
    {
        let mut g = vec![];
        for (i, s) in pre.iter().enumerate() {
            exec_step(100_000 + i, 0, s, &mut g, false);
        }
    }
    // normalise thread ids and index the steps
    let indexed: Vec<(usize, usize, Value)> = steps.iter().enumerate().map(|(gi, s)| (gi, (s["t"].as_u64().unwrap_or(0) as usize) % nthreads, s.clone())).collect();
    TURN.store(0, Ordering::SeqCst);
    let total = indexed.len();
    let mut tids = vec![];
    for t in 1..nthreads {
        let mine: Vec<(usize, Value)> = indexed.iter().filter(|x| x.1 == t).map(|x| (x.0, x.2.clone())).collect();
        tids.push(detsim::spawn(&format!("t{t}"), move || thread_body(t, mine, sync)));
    }
    let mine: Vec<(usize, Value)> = indexed.iter().filter(|x| x.1 == 0).map(|x| (x.0, x.2.clone())).collect();
    thread_body(0, mine, sync);
    for id in tids {
        detsim::join(id);
    }
    let _ = total;
}

/// Fault: a thread-local whose destructor opens and closes a dispatcher scope while the thread is exiting -
/// possibly after tracing's own thread-local state is gone. Other threads' scopes must not notice.
struct LateScope;
impl Drop for LateScope {
    fn drop(&mut self) {
        fault("scope_in_tls_destructor");
        let g = dispatch::set_default(&Dispatch::none());
        drop(g);
    }
}
thread_local! {
    static LATE_A: std::cell::RefCell<Option<LateScope>> = std::cell::RefCell::new(None);
    static LATE_B: std::cell::RefCell<Option<LateScope>> = std::cell::RefCell::new(None);
}
pub static LATE_SCOPES: AtomicUsize = AtomicUsize::new(0);

/// Thread-exit effect: a thread-local (created before its thread ever touches tracing, so destroyed after tracing's
/// own thread-locals) whose destructor emits an event. The thread has no scope any more; the process-wide default
/// applies.
struct LateEmit {
    t: usize,
    site: usize,
}
impl Drop for LateEmit {
    fn drop(&mut self) {
        fault("emission_in_tls_destructor");
        let val = 8_000_000 + self.t as u64;
        let inv = detsim::stamp();
        sites::emit_event(self.site, val);
        let ret = detsim::stamp();
        HIST.lock().unwrap().push(Hist { gi: usize::MAX - 1, t: self.t, op: "emit".into(), k: -1, site: self.site as i64, kind: 0, val, inv, ret, applied: true, who: -2, maxlvl: -1, eod: -1, ..Default::default() });
    }
}
thread_local! {
    static LATE_E: std::cell::RefCell<Option<LateEmit>> = std::cell::RefCell::new(None);
}
/// bit t set: thread t emits from a thread-local destructor; the low byte of the upper half carries the site
pub static LATE_EMIT: AtomicUsize = AtomicUsize::new(0);

fn thread_body(t: usize, mine: Vec<(usize, Value)>, sync: bool) {
    // registered before this thread ever touches tracing (runs after tracing's thread-locals are destroyed) ...
    let le = LATE_EMIT.load(Ordering::SeqCst);
    if t > 0 && le & (1 << t) != 0 {
        LATE_E.with(|s| *s.borrow_mut() = Some(LateEmit { t, site: (le >> 8) % sites::N }));
    }
    let late = t > 0 && LATE_SCOPES.load(Ordering::SeqCst) & (1 << t) != 0;
    if late {
        LATE_A.with(|s| *s.borrow_mut() = Some(LateScope));
    }
    let mut guards: Vec<dispatch::DefaultGuard> = vec![];
    for (gi, s) in mine {
        if sync {
            detsim::op_boundary("op");
        } else {
            detsim::block_until("turn", None, || TURN.load(Ordering::SeqCst) == gi);
        }
        exec_step(gi, t, &s, &mut guards, !sync);
        if !sync {
            TURN.store(gi + 1, Ordering::SeqCst);
            detsim::progress();
        }
    }
    // ... and one registered after it did (runs before them)
    if late {
        let _ = whoami();
        LATE_B.with(|s| *s.borrow_mut() = Some(LateScope));
    }
    // a thread may end with scopes still open: they unwind LIFO with the thread
    if !guards.is_empty() {
        fault("thread_exit_with_open_scope");
    }
    while let Some(g) = guards.pop() {
        let inv = detsim::stamp();
        drop(g);
        let ret = detsim::stamp();
        // recorded so that the model sees the scope end with the thread
        HIST.lock().unwrap().push(Hist { gi: usize::MAX, t, op: "close".into(), k: -1, site: -1, inv, ret, applied: true, who: -2, maxlvl: -1, ..Default::default() });
    }
}

fn gen_filter(rng: &mut Rng, allow_dynamic: bool) -> Value {
    let mode = if allow_dynamic { *rng.pick(&[0u64, 0, 1, 2, 3, 3]) } else { 0 };
    let thr = *rng.pick(&[0u64, 1, 2, 3, 3, 4, 5, 5]);
    let targets = *rng.pick(&[15u64, 15, 1, 3, 5, 8, 6, 0]);
    json!({"thr": thr, "targets": targets, "mode": mode, "dyn_targets": rng.below(16), "thr2": rng.below(6), "targets2": rng.below(16), "hint": rng.below(3)})
}

impl Engine for CoreEngine {
    fn name(&self) -> &'static str {
        "core-sim"
    }
    fn props(&self) -> &'static [&'static str] {
        &["C01", "C02", "C04"]
    }
    fn modes(&self, prop: &str) -> Vec<String> {
        let mut m = vec!["must".to_string()];
        if prop == "C02" && finding_open("F1") {
            m.push("probe:F1".into());
        }
        if prop == "C04" && finding_open("F11") {
            m.push("probe:F11".into());
        }
        m
    }
    fn rule(&self, prop: &str) -> String {
        match prop {
            "C01" => "history over {new collector with filter (static, dynamic, or reloadable: two static configurations, the flip rebuilds the interest cache and moves the hint; a quarter of the collectors configure themselves only in on_register_dispatch), drop handle, open/close scope, with_default (optionally panicking), set_global_default, emit event/span at a pool site (contextual and explicit-parent macro arms, less common event! forms; the collector's own callback may panic, caught), enabled! probe, rebuild_interest_cache, flip; faults: a collector panics in register_callsite on a first hit (caught), a thread emits from a thread-local destructor at exit} on 1-3 threads in a seeded total order, a quarter of the runs as seeded schedules over a shared pair of sites; non-trivial = at least one expected delivery AND one expected suppression after at least one collector change; distinct = distinct plan digest".into(),
            "C02" => "history (op granularity, total order) or schedule (sync granularity: every atomic op of tracing-core is a preemption point) over {open/close scope (a quarter of the collectors behind Dispatch::from_static, an eighth of the scopes Dispatch::none()), with_default incl. unwinding, set_global_default from any thread, emit (the collector's callback may panic, caught), Dispatch identity read}, 1-4 threads, a third of the collectors of total-order runs emitting a farewell event from their own destructor (judged against the default as restored by the op that removed their last reference), a third of the runs with a thread that emits from a thread-local destructor at exit, a third of the runs with thread-local destructors that open and close a scope while their thread exits, including dispatcher use before the global default exists; non-trivial = at least one emission expected at a scoped collector and one at the global default (or discarded); distinct = distinct (plan, schedule digest)".into(),
            _ => "2-3 threads x <=4 ops from {first hit of shared pool sites, Dispatch::new (a third of the collectors reloadable), drop, set_default+emit, set_global_default, rebuild_interest_cache, flip of a reloadable collector followed by its rebuild} under seeded schedules at atomic-op/lock granularity, then a quiescence probe phase; non-trivial = at least one scheduling decision with >=2 runnable threads while two threads touched the same callsite or the dispatcher list; distinct = distinct (plan, schedule digest)".into(),
        }
    }
    fn components(&self) -> Value {
        json!({"real": ["tracing-core (callsite registry, dispatch, metadata MAX_LEVEL)", "tracing macros event!/span!/enabled! at static callsites", "OS threads and every thread_local!"],
               "stub": ["portable-atomic (std atomics + yield before each op)", "collectors (RecCollect recording implementation of Collect)"]})
    }

    fn generate(&self, g: &GenCtx) -> Value {
        let mut rng = Rng::new(g.seed);
        let prop = g.prop.as_str();
        let thorough = g.tier == "thorough";
        let (nthreads, nsteps, ncoll, sync) = match prop {
            "C01" => {
                // a quarter of the runs explore schedules (first hits racing under different collectors)
                let sync = rng.chance(1, 4);
                (if sync { rng.range(2, 3) } else { rng.range(1, 3) }, rng.range(6, if sync { 14 } else if thorough { 40 } else { 28 }), rng.range(1, 6), sync)
            }
            "C02" => (rng.range(1, 4), rng.range(4, if thorough { 30 } else { 20 }), rng.range(1, 4), rng.chance(1, 2)),
            _ => (rng.range(2, 3), 0, rng.range(1, 3), true),
        };
        let mut steps: Vec<Value> = vec![];
        let mut pre: Vec<Value> = vec![];
        if prop == "C04" {
            // small racing scenario over 1-3 shared sites
            let nsites = rng.range(1, 3);
            let pool: Vec<u64> = (0..nsites).map(|_| rng.below(sites::N as u64)).collect();
            // collectors that exist before the race (pre-phase, main thread, no other thread yet)
            let mut next_k = 0u64;
            let npre = rng.below(3);
            // a third of the collectors are reloadable: a `flip` switches between two static configurations and
            // rebuilds the interest cache, like a reload handle does
            let mut reloadable: Vec<bool> = vec![];
            let mut gen_c04_filter = |rng: &mut Rng, reloadable: &mut Vec<bool>| -> Value {
                let mut f = gen_filter(rng, false);
                let r = rng.chance(1, 3);
                if r {
                    f["mode"] = json!(3);
                }
                reloadable.push(r);
                f
            };
            for _ in 0..npre {
                pre.push(json!({"t": 0, "op": "new", "k": next_k, "f": gen_c04_filter(&mut rng, &mut reloadable)}));
                next_k += 1;
            }
            let f11_open = finding_open("F11");
            let probe_f11 = g.mode == "probe:F11";
            if probe_f11 {
                // the trigger shape: a registered `always` callsite, an emission on a scope-less thread,
                // and another thread creating a rejecting collector and installing it globally
                let site = pool[0];
                pre.clear();
                pre.push(json!({"t": 0, "op": "new", "k": 0, "f": {"thr": 5, "targets": 15, "mode": 0, "hint": 0}}));
                next_k = 1;
                if rng.chance(1, 2) {
                    steps.push(json!({"t": 1, "op": "emit", "site": site, "kind": 0}));
                }
                steps.push(json!({"t": 1, "op": "emit", "site": site, "kind": rng.below(2)}));
                steps.push(json!({"t": 0, "op": "new", "k": 1, "f": {"thr": 0, "targets": 15, "mode": 0, "hint": rng.below(3)}}));
                steps.push(json!({"t": 0, "op": "global", "k": 1}));
                next_k = 2;
            }
            for t in 0..nthreads {
                if probe_f11 {
                    break;
                }
                let n = rng.range(1, 4);
                let mut open = 0;
                for _ in 0..n {
                    match rng.below(10) {
                        0..=3 => steps.push(json!({"t": t, "op": "emit", "site": *rng.pick(&pool), "kind": rng.below(2)})),
                        4 | 5 => {
                            if next_k < 4 {
                                steps.push(json!({"t": t, "op": "new", "k": next_k, "f": gen_c04_filter(&mut rng, &mut reloadable)}));
                                if rng.chance(2, 3) {
                                    steps.push(json!({"t": t, "op": "open", "k": next_k}));
                                    open += 1;
                                }
                                next_k += 1;
                            }
                        }
                        6 => {
                            if next_k > 0 {
                                steps.push(json!({"t": t, "op": "drop", "k": rng.below(next_k)}));
                            }
                        }
                        7 => {
                            // while F11 is open, must-hold runs install as global default only collectors
                            // that existed before any thread started (so every interest check saw them)
                            let lim = if f11_open && !probe_f11 { npre } else { next_k };
                            if lim > 0 {
                                steps.push(json!({"t": t, "op": "global", "k": rng.below(lim)}));
                            }
                        }
                        8 => {
                            let rl: Vec<u64> = (0..next_k).filter(|k| reloadable.get(*k as usize).copied().unwrap_or(false)).collect();
                            if !rl.is_empty() && rng.chance(2, 3) {
                                steps.push(json!({"t": t, "op": "flip", "k": *rng.pick(&rl)}));
                            } else {
                                steps.push(json!({"t": t, "op": "rebuild"}));
                            }
                        }
                        _ => {
                            if open > 0 {
                                steps.push(json!({"t": t, "op": "close"}));
                                open -= 1;
                            } else {
                                steps.push(json!({"t": t, "op": "probe", "site": *rng.pick(&pool)}));
                            }
                        }
                    }
                }
            }
            // interleave threads' steps in the list (order across threads is irrelevant in sync mode)
        } else {
            let allow_dyn = prop == "C01";
            let mut created: Vec<u64> = vec![];
            let mut flippable: Vec<u64> = vec![]; // collectors whose filter has a second configuration
            let mut open_depth = vec![0u64; nthreads as usize];
            let f1_trigger_mode = g.mode == "probe:F1";
            let f1_guard = prop == "C02" && finding_open("F1") && !f1_trigger_mode;
            let mut global_done = false;
            let site_base = rng.below(sites::N as u64);
            let mut touched = vec![false; nthreads as usize]; // thread touched its dispatcher TLS before the global install
            let mut nsteps = nsteps;
            if prop == "C01" && sync && rng.chance(1, 2) {
                // burst shape: the collectors exist before any thread starts; every thread opens a scope and makes
                // its first hit of one shared callsite at once
                let n = rng.range(1, 2);
                for k in 0..n {
                    let f = gen_filter(&mut rng, allow_dyn);
                    if f["mode"].as_u64().unwrap_or(0) != 0 {
                        flippable.push(k);
                    }
                    pre.push(json!({"t": 0, "op": "new", "k": k, "f": f}));
                    created.push(k);
                }
                let kind = rng.below(2);
                for t in 0..nthreads {
                    steps.push(json!({"t": t, "op": "open", "k": *rng.pick(&created)}));
                    open_depth[t as usize] += 1;
                    steps.push(json!({"t": t, "op": "emit", "site": site_base, "kind": kind}));
                }
                nsteps = rng.range(0, 6);
            }
            for i in 0..nsteps {
                let t = rng.below(nthreads);
                let tt = t as usize;
                let roll = rng.below(100);
                let want_new = created.is_empty() || (roll < if prop == "C01" && sync { 30 } else { 12 } && (created.len() as u64) < ncoll);
                if want_new {
                    let k = created.len() as u64;
                    let f = if prop == "C02" && (sync || rng.chance(2, 3)) { json!({"thr": 5, "targets": 15, "mode": 0, "hint": rng.below(3)}) } else { gen_filter(&mut rng, allow_dyn) };
                    if f["mode"].as_u64().unwrap_or(0) != 0 {
                        flippable.push(k);
                    }
                    if prop == "C02" && rng.chance(1, 4) {
                        steps.push(json!({"t": t, "op": "new", "k": k, "f": f, "st": true}));
                    } else if prop == "C02" && !sync && rng.chance(1, 3) {
                        steps.push(json!({"t": t, "op": "new", "k": k, "f": f, "eod": rng.below(sites::N as u64)}));
                    } else if prop == "C02" && !sync && rng.chance(1, 3) {
                        steps.push(json!({"t": t, "op": "new", "k": k, "f": f, "nested": rng.range(2, 3)}));
                    } else if prop == "C01" && rng.chance(1, 4) {
                        steps.push(json!({"t": t, "op": "new", "k": k, "f": f, "late": true}));
                    } else {
                        steps.push(json!({"t": t, "op": "new", "k": k, "f": f}));
                    }
                    created.push(k);
                    continue;
                }
                let k = *rng.pick(&created);
                // schedules: a small shared pool of sites so that first hits collide
                let site = if sync { (site_base + rng.below(2)) % sites::N as u64 } else { rng.below(sites::N as u64) };
                let mut kind = rng.below(2);
                let mut site = site;
                if rng.chance(1, 6) {
                    // a less common form of the event macro; those sites are the target-0 column of the pool
                    kind = 2 + rng.below(4);
                    site = (site / 4) * 4;
                } else if prop == "C01" && rng.chance(1, 6) {
                    // explicit-parent forms (parent: None) of span! and event!
                    kind = 6 + rng.below(2);
                }
                let st = match roll {
                    12..=19 => {
                        if open_depth[tt] < 4 {
                            open_depth[tt] += 1;
                            if !global_done {
                                touched[tt] = true;
                            }
                            if prop == "C02" && rng.chance(1, 8) {
                                json!({"t": t, "op": "open", "k": -1, "none": true})
                            } else {
                                json!({"t": t, "op": "open", "k": k})
                            }
                        } else {
                            json!({"t": t, "op": "emit", "site": site, "kind": kind})
                        }
                    }
                    20..=27 => {
                        if open_depth[tt] > 0 {
                            open_depth[tt] -= 1;
                            json!({"t": t, "op": "close"})
                        } else {
                            json!({"t": t, "op": "emit", "site": site, "kind": kind})
                        }
                    }
                    28..=33 => {
                        let n = rng.range(0, 2);
                        let inner: Vec<Value> = (0..n).map(|_| json!({"site": rng.below(sites::N as u64), "kind": rng.below(2)})).collect();
                        if !global_done {
                            touched[tt] = true;
                        }
                        if prop == "C02" && rng.chance(1, 8) {
                            json!({"t": t, "op": "with", "k": -1, "none": true, "inner": inner, "panic": rng.chance(1, 3)})
                        } else {
                            json!({"t": t, "op": "with", "k": k, "inner": inner, "panic": rng.chance(1, 3)})
                        }
                    }
                    34..=39 => {
                        if prop == "C01" && (sync || rng.chance(1, 2)) {
                            // (in sync granularity C01 installs no global default: that race is C04's F11)
                            json!({"t": t, "op": "drop", "k": k})
                        } else if f1_guard && touched.iter().any(|x| *x) && !global_done {
                            // while F1 is open, must-hold runs install the global default only if no
                            // thread has touched its thread-local dispatcher state yet
                            json!({"t": t, "op": "emit", "site": site, "kind": kind})
                        } else {
                            global_done = true;
                            json!({"t": t, "op": "global", "k": k})
                        }
                    }
                    40..=45 => json!({"t": t, "op": "probe", "site": site}),
                    46..=49 => json!({"t": t, "op": "rebuild"}),
                    50..=54 => {
                        if allow_dyn {
                            json!({"t": t, "op": "flip", "k": if flippable.is_empty() { k } else { *rng.pick(&flippable) }})
                        } else {
                            json!({"t": t, "op": "whoami"})
                        }
                    }
                    55..=59 => {
                        // under seeded schedules flips (each followed by its rebuild) are what races with first hits
                        if allow_dyn && sync && !flippable.is_empty() {
                            json!({"t": t, "op": "flip", "k": *rng.pick(&flippable)})
                        } else {
                            json!({"t": t, "op": "whoami"})
                        }
                    }
                    60..=64 => json!({"t": t, "op": "drop", "k": k}),
                    _ => {
                        if !global_done && open_depth[tt] == 0 && open_depth.iter().any(|d| *d > 0) {
                            // bare emission on the slow path before a global default exists
                            touched[tt] = true;
                        }
                        if rng.chance(1, 8) {
                            json!({"t": t, "op": "emit", "site": site, "kind": kind, "cpanic": true})
                        } else if prop == "C01" && rng.chance(1, 8) {
                            json!({"t": t, "op": "emit", "site": site, "kind": kind, "rpanic": true})
                        } else {
                            json!({"t": t, "op": "emit", "site": site, "kind": kind})
                        }
                    }
                };
                let _ = i;
                steps.push(st);
            }
            if f1_trigger_mode {
                // finding-probe configuration: exactly the F1 trigger, appended to the history
                let a = 0u64;
                let b = 1 % nthreads.max(2);
                let k = created[0];
                steps.push(json!({"t": a, "op": "open", "k": k}));
                steps.push(json!({"t": b, "op": "emit", "site": 0, "kind": 0}));
                steps.push(json!({"t": a, "op": "global", "k": k}));
                steps.push(json!({"t": b, "op": "emit", "site": 1, "kind": 0}));
            }
        }
        let nthreads = if g.mode == "probe:F1" { nthreads.max(2) } else { nthreads };
        let sched = if sync { Sched::swarm(&mut rng, if prop == "C04" { 300 } else { 600 }) } else { Sched::op_order(rng.next_u64()) };
        json!({
            "engine": "core", "prop": g.prop, "mode": g.mode,
            "cfg": {"threads": nthreads, "collectors": 8, "late_scopes": if prop == "C02" && rng.chance(1, 3) { rng.below(16) & !1 } else { 0 },
                    "late_emit": if prop != "C04" && rng.chance(1, 3) { (rng.below(16) & !1) | (rng.below(sites::N as u64) << 8) } else { 0 }},
            "pre": pre,
            "steps": steps,
            "sched": serde_json::to_value(&sched).unwrap(),
            "hang_is_violation": prop == "C04",
        })
    }

    fn classify_known(&self, plan: &Value, res: &RunResult) -> Option<String> {
        if plan["mode"] == "probe:F1" && finding_open("F1") && matches!(res.class.as_str(), "lost-emission" | "wrong-identity") && res.detail.contains("[F1-signature]") {
            return Some("F1 thread-local caches Dispatch::none before the global default is set".into());
        }
        if plan["mode"] == "probe:F11" && finding_open("F11") && res.class == "spurious-emission" && res.detail.contains("[F11-signature]") {
            return Some("F11 emission whose cached-interest check preceded the creation of a collector that becomes global default mid-emission is delivered to it unfiltered".into());
        }
        None
    }

    fn execute(&self, plan: &Value) -> RunResult {
        let sched = plan_sched(plan);
        let prop = plan["prop"].as_str().unwrap_or("").to_string();
        let nthreads = plan["cfg"]["threads"].as_u64().unwrap_or(1).max(1) as usize;
        let ncoll = plan["cfg"]["collectors"].as_u64().unwrap_or(8) as usize;
        let steps: Vec<Value> = plan["steps"].as_array().cloned().unwrap_or_default();
        let pre: Vec<Value> = plan["pre"].as_array().cloned().unwrap_or_default();
        std::panic::set_hook(Box::new(|_| {}));
        LATE_SCOPES.store(plan["cfg"]["late_scopes"].as_u64().unwrap_or(0) as usize, Ordering::SeqCst);
        LATE_EMIT.store(plan["cfg"]["late_emit"].as_u64().unwrap_or(0) as usize, Ordering::SeqCst);
        {
            let mut sl = SLOTS.lock().unwrap();
            sl.handles = vec![None; ncoll];
            sl.filters = vec![None; ncoll];
        }
        crate::fw::SPIN_IS_VIOLATION.store(true, Ordering::SeqCst);
        let sync = sched.sync;
        let prop2 = prop.clone();
        let body = move || {
            run_plan_threads(nthreads, &pre, &steps, sync);
            if prop2 == "C04" {
                quiescence_probe();
            }
        };
        let prop3 = prop.clone();
        let finish = move || {
            let hist = std::mem::take(&mut *HIST.lock().unwrap());
            let log = rec::take_log();
            let filters: Vec<Option<FilterSpec>> = SLOTS.lock().unwrap().filters.clone();
            oracle(&prop3, sync, &hist, &log, &filters);
        };
        simulate(&plan.to_string(), &sched, None, body, finish)
    }
}

pub static QUIESCE: Mutex<Vec<(usize, usize, bool, u64, u64, bool)>> = Mutex::new(Vec::new()); // (k, site, offered_before, inv, ret, _)

/// C04 probe phase: on the main thread, after every other thread has been joined.
fn quiescence_probe() {
    let hist = HIST.lock().unwrap().clone();
    let mut hit: Vec<usize> = hist.iter().filter(|h| matches!(h.op.as_str(), "emit" | "probe") && h.site >= 0).map(|h| h.site as usize).collect();
    for h in &hist {
        for i in &h.inner {
            hit.push(i.0 as usize);
        }
    }
    hit.sort();
    hit.dedup();
    let live: Vec<(usize, Dispatch)> = {
        let sl = SLOTS.lock().unwrap();
        sl.handles.iter().enumerate().filter_map(|(k, d)| d.clone().map(|d| (k, d))).collect()
    };
    let before = rec::snapshot_log();
    // a callsite counts as registered if some collector was offered it; then every live one must have been
    let mut registered: Vec<(i32, u8, &'static str)> = before.iter().filter(|r| r.kind == "register_callsite" && r.site >= 0).map(|r| (r.site, r.skind, r.name)).collect();
    registered.sort();
    registered.dedup();
    for (k, d) in live {
        for cs in &registered {
            if !before.iter().any(|r| r.k == k && r.kind == "register_callsite" && (r.site, r.skind, r.name) == *cs) {
                violation("not-offered", format!("callsite (site {}, kind {}) is registered but was never offered to live collector {k}", cs.0, cs.1));
            }
        }
        for &s in &hit {
            let inv = detsim::stamp();
            dispatch::with_default(&d, || sites::emit_event(s, 9_000_000 + (k * 100 + s) as u64));
            let ret = detsim::stamp();
            QUIESCE.lock().unwrap().push((k, s, true, inv, ret, true));
        }
    }
    // after the probe emissions every probed event callsite has been hit with its collector live: it must have
    // been offered to that collector at some point (judged by the oracle only where the collector accepts the
    // callsite, so that the level gate in front of registration was certainly open)
    let after = rec::snapshot_log();
    for q in QUIESCE.lock().unwrap().iter_mut() {
        q.2 = after.iter().any(|r| r.k == q.0 && r.kind == "register_callsite" && r.site == q.1 as i32 && r.skind == 0);
    }
}

fn sig_f1(hist: &[Hist], e_t: usize, e_inv: u64, g_ok: Option<&Hist>) -> bool {
    // F1 signature: a scope-less thread whose first touch of its dispatcher state precedes the install
    match g_ok {
        Some(g) => hist.iter().any(|h| h.t == e_t && h.inv < g.inv && h.inv < e_inv && matches!(h.op.as_str(), "open" | "with" | "emit" | "probe" | "whoami" | "close")),
        None => false,
    }
}

/// A1 dispatch model + A2 filter model over the recorded history.
fn oracle(prop: &str, sync: bool, hist: &[Hist], log: &[Rec], filters: &[Option<FilterSpec>]) {
    let mut hist: Vec<Hist> = hist.to_vec();
    hist.sort_by_key(|h| h.inv);
    let nthreads = hist.iter().map(|h| h.t).max().unwrap_or(0) + 1;
    let mut scopes: Vec<Vec<i64>> = vec![vec![]; nthreads];
    let globals: Vec<&Hist> = hist.iter().filter(|h| h.op == "global" && h.applied).collect();
    let g_ok: Vec<&&Hist> = globals.iter().filter(|h| h.ok).collect();
    // global-once
    if !globals.is_empty() {
        if g_ok.len() != 1 {
            violation("global-once", format!("{} of {} set_global_default attempts succeeded", g_ok.len(), globals.len()));
            return;
        }
        let ok = g_ok[0];
        for g in &globals {
            if !g.ok && g.ret < ok.inv {
                violation("global-once", "a set_global_default attempt failed before any attempt had succeeded");
            }
        }
    }
    let g_ok: Option<&Hist> = g_ok.first().map(|h| **h);
    // flip state per collector over (total-order) history; flips are only generated in op mode
    let mut flipped = vec![false; filters.len()];
    // live collectors for the MAX_LEVEL bound (op mode): handle table, scopes, global
    let mut handle_live = vec![false; filters.len()];
    let mut dead = vec![false; filters.len()];
    let mut eod_site: Vec<i64> = vec![-1; filters.len()];
    for h in hist.iter().filter(|h| h.op == "new" && h.applied && h.eod >= 0 && h.k >= 0 && (h.k as usize) < filters.len()) {
        eod_site[h.k as usize] = h.eod;
    }
    let mut global_k: i64 = -1;
    let mut expected_deliveries = 0u64;
    let mut expected_suppressions = 0u64;
    let mut collector_changes = 0u64;
    let mut seen_scoped_delivery = false;
    let mut seen_global_or_none = false;

    let hist_ref: &Vec<Hist> = &hist;
    // flip states a collector's filter may be in during [inv, ret]: flips that returned before `inv` have taken
    // effect, flips overlapping the window may or may not have (under a total order nothing overlaps)
    let flips: Vec<(i64, u64, u64)> = hist.iter().filter(|h| h.op == "flip" && h.applied).map(|h| (h.k, h.inv, h.ret)).collect();
    let flip_states = |k: i64, inv: u64, ret: u64| -> Vec<bool> {
        let done = flips.iter().filter(|f| f.0 == k && f.2 < inv).count();
        let overlapping = flips.iter().filter(|f| f.0 == k && f.2 >= inv && f.1 <= ret).count();
        if overlapping == 0 {
            vec![done % 2 == 1]
        } else {
            vec![false, true]
        }
    };
    let check_emission = |t: usize, site: i64, kind: u8, val: u64, inv: u64, ret: u64, receiver_opts: &[i64], _flipped: &[bool], expd: &mut u64, exps: &mut u64, f1sig: bool| {
        let want_kind = if kind == 1 || kind == 6 { "new_span" } else { "event" };
        let got: Vec<&Rec> = log.iter().filter(|r| r.thread == t && r.stamp > inv && r.stamp < ret && r.kind == want_kind && r.val == val).collect();
        let (lvl, tg) = sites::SITES[site as usize];
        // expected sets per allowed receiver
        let mut opts: Vec<Option<i64>> = vec![];
        for &r in receiver_opts {
            if r >= 0 {
                let f = filters[r as usize].as_ref();
                for st in flip_states(r, inv, ret) {
                    let acc = f.map_or(false, |f| f.accept(lvl, tg, st));
                    opts.push(if acc { Some(r) } else { None });
                }
            } else {
                opts.push(None);
            }
        }
        let got_ks: Vec<i64> = got.iter().map(|r| r.k as i64).collect();
        let matches_opt = opts.iter().any(|o| match o {
            Some(k) => got_ks.len() == 1 && got_ks[0] == *k,
            None => got_ks.is_empty(),
        });
        if opts.iter().all(|o| o.is_some()) {
            *expd += 1;
        }
        if opts.iter().all(|o| o.is_none()) {
            *exps += 1;
        }
        if matches_opt {
            return;
        }
        let tag = if f1sig { " [F1-signature]" } else { "" };
        if got_ks.len() > 1 {
            violation("duplicate-emission", format!("emission val={val} site={site} on t{t} delivered {} times: {:?}", got_ks.len(), got_ks));
        } else if got_ks.len() == 1 && !receiver_opts.contains(&got_ks[0]) {
            violation("wrong-receiver", format!("emission val={val} site={site} on t{t} delivered to collector {} but the thread's current collector is {:?}{tag}", got_ks[0], receiver_opts));
        } else if got_ks.len() == 1 {
            // F11 signature: the receiver is the global default and was created after this emission started
            let created_late = hist_ref.iter().any(|h| h.op == "new" && h.applied && h.k == got_ks[0] && h.ret > inv);
            let is_global = g_ok.map_or(false, |g| g.k == got_ks[0]);
            let tag = if created_late && is_global && receiver_opts.len() == 2 { " [F11-signature]" } else { "" };
            violation("spurious-emission", format!("emission val={val} site={site} (level {lvl}, target {tg}) on t{t} delivered to collector {} whose filter rejects it{tag}", got_ks[0]));
        } else {
            violation("lost-emission", format!("emission val={val} site={site} (level {lvl}, target {tg}) on t{t} was not delivered; current collector {:?} accepts it{tag}", receiver_opts));
        }
    };

    for h in &hist {
        let t = h.t;
        // receiver options for this op
        let recv_opts: Vec<i64> = if let Some(&k) = scopes[t].last() {
            vec![k]
        } else {
            match g_ok {
                None => vec![-1],
                Some(g) => {
                    if g.ret < h.inv {
                        vec![g.k]
                    } else if g.inv > h.ret {
                        vec![-1]
                    } else {
                        vec![-1, g.k]
                    }
                }
            }
        };
        let f1sig = scopes[t].is_empty() && sig_f1(&hist, t, h.inv, g_ok);
        match h.op.as_str() {
            "new" if h.applied => {
                handle_live[h.k as usize] = true;
                collector_changes += 1;
            }
            "drop" if h.applied => {
                handle_live[h.k as usize] = false;
                collector_changes += 1;
            }
            "open" if h.applied => scopes[t].push(h.k),
            "close" if h.applied => {
                scopes[t].pop();
            }
            "global" if h.applied && h.ok => global_k = h.k,
            "flip" if h.applied => flipped[h.k as usize] = !flipped[h.k as usize],
            "with" if h.applied => {
                for &(site, kind, val, inv, ret) in &h.inner {
                    check_emission(t, site, kind, val, inv, ret, &[h.k], &flipped, &mut expected_deliveries, &mut expected_suppressions, false);
                    seen_scoped_delivery = true;
                }
            }
            "emit" | "with" if !sync && (h.op == "with" || !scopes[t].is_empty()) && log.iter().any(|r| r.thread == t && r.stamp > h.inv && r.stamp < h.ret && matches!(r.kind, "event" | "new_span") && (9_000_000..9_500_000).contains(&r.val)) => {
                // while a scoped default exists, what a collector emits from inside its own callback is discarded
                // (the dispatcher's re-entry guard hands nested calls the no-op collector)
                violation("reentrant-delivery", format!("op {} on t{t}: a collector was called again (event emitted from inside its own callback) while a scoped default is in force", h.gi));
                return;
            }
            "emit" if h.rpanic => {} // the registration panicked before the emission could be dispatched
            "emit" => {
                check_emission(t, h.site, h.kind, h.val, h.inv, h.ret, &recv_opts, &flipped, &mut expected_deliveries, &mut expected_suppressions, f1sig);
                if scopes[t].is_empty() {
                    seen_global_or_none = true;
                } else {
                    seen_scoped_delivery = true;
                }
            }
            "probe" => {
                // a thread without any collector must see `false` (the no-op collector enables nothing)
                {
                    let (lvl, tg) = sites::SITES[h.site as usize];
                    let ok = recv_opts.iter().any(|&r| if r < 0 { !h.res_bool } else { flip_states(r, h.inv, h.ret).iter().any(|st| filters[r as usize].as_ref().map_or(false, |f| f.accept(lvl, tg, *st)) == h.res_bool) });
                    if !ok {
                        violation("probe-mismatch", format!("enabled! at site {} on t{t} returned {} but the current collector {:?} says otherwise", h.site, h.res_bool, recv_opts));
                    }
                }
            }
            "whoami" => {
                if !recv_opts.contains(&h.who) {
                    let tag = if f1sig { " [F1-signature]" } else { "" };
                    violation("wrong-identity", format!("get_default on t{t} saw collector {} but the model says {:?}{tag}", h.who, recv_opts));
                }
            }
            _ => {}
        }
        if !sync {
            // collectors that emit a farewell event from their destructor: the op that removes a collector's last
            // reference (handle table, any thread's open scope, the global default) must deliver that event to the
            // thread's current collector as it is *after* the op - or to nobody, if that collector's filter says so
            for (k, &dsite) in eod_site.iter().enumerate() {
                if dsite < 0 || dead[k] {
                    continue;
                }
                let kk = k as i64;
                let alive = handle_live[k] || scopes.iter().any(|s| s.contains(&kk)) || hist.iter().any(|g| g.op == "global" && g.applied && g.k == kk && g.inv <= h.inv && (g.ok || g.gi == h.gi && g.t == h.t && g.inv == h.inv));
                if alive {
                    continue;
                }
                dead[k] = true;
                let recv_after: Vec<i64> = if let Some(&c) = scopes[t].last() {
                    vec![c]
                } else {
                    match g_ok {
                        Some(g) if g.ret < h.inv => vec![g.k],
                        _ => vec![-1],
                    }
                };
                check_emission(t, dsite, 0, 7_000_000 + k as u64, h.inv, h.ret, &recv_after, &flipped, &mut expected_deliveries, &mut expected_suppressions, false);
                probe("farewell-events-judged");
            }
        }
        if !sync && h.maxlvl >= 0 {
            // upper-bound form: MAX_LEVEL >= the most verbose level any live collector can accept
            let mut need = 0u8;
            let mut live = handle_live.clone();
            for s in &scopes {
                for &k in s {
                    if k >= 0 {
                        live[k as usize] = true;
                    }
                }
            }
            if global_k >= 0 {
                live[global_k as usize] = true;
            }
            for (k, l) in live.iter().enumerate() {
                if *l {
                    if let Some(f) = &filters[k] {
                        need = need.max(f.need_in(flipped[k]));
                    }
                }
            }
            if (h.maxlvl as u8) < need {
                violation("max-level-too-low", format!("after op {} ({}) LevelFilter::current()={} but a live collector accepts level {}", h.gi, h.op, h.maxlvl, need));
            }
        }
    }
    // C04 quiescence probe
    let q = std::mem::take(&mut *QUIESCE.lock().unwrap());
    for (k, s, offered, inv, ret, _) in &q {
        let (lvl, tg) = sites::SITES[*s];
        let final_state = flips.iter().filter(|f| f.0 == *k as i64).count() % 2 == 1;
        let acc = filters[*k].as_ref().map_or(false, |f| f.accept(lvl, tg, final_state));
        let got = log.iter().filter(|r| r.stamp > *inv && r.stamp < *ret && r.kind == "event").collect::<Vec<_>>();
        let delivered_here = got.iter().any(|r| r.k == *k);
        if got.iter().any(|r| r.k != *k) {
            violation("wrong-receiver", format!("quiescence probe for collector {k} site {s} was delivered elsewhere"));
        }
        if acc && !delivered_here {
            violation("stranded", format!("after quiescence collector {k} accepts site {s} (level {lvl}, target {tg}) but the emission was not delivered (callsite stranded or MAX_LEVEL too low)"));
        }
        if !acc && delivered_here {
            violation("spurious-emission", format!("after quiescence collector {k} rejects site {s} but received it"));
        }
        if acc && !*offered {
            violation("not-offered", format!("event callsite {s} was hit with collector {k} live and accepting, but was never offered to it (register_callsite)"));
        }
    }
    if !q.is_empty() {
        probe_n("quiescence-probes", q.len() as u64);
    }
    // spurious deliveries outside any emission window (e.g. to a collector that is not current)
    match prop {
        "C01" => {
            if expected_deliveries > 0 && expected_suppressions > 0 && collector_changes > 1 {
                nontrivial();
            }
        }
        "C02" => {
            if seen_scoped_delivery && seen_global_or_none {
                nontrivial();
            }
        }
        _ => {
            nontrivial();
        }
    }
    let _ = Arc::new(0);
}
