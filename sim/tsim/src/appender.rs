//! appender-sim, part 1: C15 — the real `NonBlocking`/`Worker`/`WorkerGuard` over the simulated channel
//! and a scripted underlying writer.
use crate::driver::finding_open;
use crate::fw::*;
use crossbeam_channel::{VerifEvent, VerifKind};
use detsim::Rng;
use serde_json::{json, Value};
use std::io::{self, Write};
use std::sync::atomic::{AtomicBool, AtomicU64, Ordering};
use std::sync::{Arc, Mutex};

pub struct AppenderEngine;

#[derive(Clone, Debug)]
enum WCall {
    Write { stamp: u64, buf: Vec<u8>, res: Result<usize, io::ErrorKind> },
    Flush { stamp: u64, ok: bool },
    Dropped { stamp: u64 },
}

struct SinkState {
    calls: Vec<WCall>,
    nwrite: u64,
    nflush: u64,
}

struct Faults {
    write_err: Vec<u64>,
    write_eintr: Vec<u64>,
    write_wouldblock: Vec<u64>,
    short_write: Vec<u64>,
    flush_err: Vec<u64>,
    /// while F9 is open, must-hold runs do not fail a flush once the guard's drop was invoked
    f9_guard: bool,
    /// probe mode: fail every flush after the guard's drop was invoked
    flush_err_after_drop: bool,
}

struct SimWriter {
    st: Arc<Mutex<SinkState>>,
    faults: Arc<Faults>,
    delay_ns: u64,
    gate: Arc<Gate>,
    drop_invoked: Arc<AtomicU64>,
}

struct Gate {
    closed_until: AtomicU64, // virtual ns; 0 = open
}

fn vsleep(site: &'static str, ns: u64) {
    if ns == 0 {
        return;
    }
    let d = detsim::now_ns().saturating_add(ns);
    detsim::block_until(site, Some(d), || false);
}

impl Write for SimWriter {
    fn write(&mut self, buf: &[u8]) -> io::Result<usize> {
        detsim::yield_point("sink:write");
        // pacing: the gate, then the per-write latency
        loop {
            let until = self.gate.closed_until.load(Ordering::SeqCst);
            let now = detsim::now_ns();
            if until > now {
                probe("sink-waited-at-gate");
                detsim::block_until("sink:gate", Some(until), || self.gate.closed_until.load(Ordering::SeqCst) <= detsim::now_ns());
            } else {
                break;
            }
        }
        vsleep("sink:pace", self.delay_ns);
        let mut st = self.st.lock().unwrap();
        st.nwrite += 1;
        let n = st.nwrite;
        let res = if self.faults.write_err.contains(&n) {
            fault("writer_error_write");
            Err(io::ErrorKind::Other)
        } else if self.faults.write_wouldblock.contains(&n) {
            fault("writer_would_block");
            Err(io::ErrorKind::WouldBlock)
        } else if self.faults.write_eintr.contains(&n) {
            fault("writer_eintr");
            Err(io::ErrorKind::Interrupted)
        } else if self.faults.short_write.contains(&n) && buf.len() > 1 {
            fault("writer_short_write");
            Ok(1 + (n as usize % (buf.len() - 1)))
        } else {
            Ok(buf.len())
        };
        st.calls.push(WCall::Write { stamp: detsim::stamp(), buf: buf.to_vec(), res });
        res.map_err(io::Error::from)
    }
    fn flush(&mut self) -> io::Result<()> {
        detsim::yield_point("sink:flush");
        let mut st = self.st.lock().unwrap();
        st.nflush += 1;
        let n = st.nflush;
        let after_drop = self.drop_invoked.load(Ordering::SeqCst) != 0;
        let fail = if after_drop && self.faults.flush_err_after_drop {
            true
        } else if self.faults.flush_err.contains(&n) {
            !(self.faults.f9_guard && after_drop)
        } else {
            false
        };
        if fail {
            fault("writer_error_flush");
            if after_drop {
                fault("writer_error_flush_after_guard_drop");
            }
        }
        st.calls.push(WCall::Flush { stamp: detsim::stamp(), ok: !fail });
        if fail {
            Err(io::Error::from(io::ErrorKind::Other))
        } else {
            Ok(())
        }
    }
}
impl Drop for SimWriter {
    fn drop(&mut self) {
        let mut st = self.st.lock().unwrap_or_else(|p| p.into_inner());
        st.calls.push(WCall::Dropped { stamp: detsim::stamp() });
    }
}

fn line_bytes(t: u64, k: u64, len: u64) -> Vec<u8> {
    let mut s = format!("L{t}.{k}:");
    while (s.len() as u64) < len {
        s.push((b'a' + ((t * 7 + k * 3 + s.len() as u64) % 26) as u8) as char);
    }
    s.push('\n');
    s.into_bytes()
}

impl Engine for AppenderEngine {
    fn name(&self) -> &'static str {
        "appender-sim"
    }
    fn props(&self) -> &'static [&'static str] {
        &["C15"]
    }
    fn modes(&self, _prop: &str) -> Vec<String> {
        let mut m = vec!["must".to_string(), "stall".to_string()];
        if finding_open("F9") {
            m.push("probe:F9".into());
        }
        m
    }
    fn mode_weight(&self, _prop: &str, mode: &str) -> u32 {
        match mode {
            "must" => 8,
            "stall" => 2,
            _ => 1,
        }
    }
    fn rule(&self, _p: &str) -> String {
        "plan = (capacity, lossy?, producers x unique lines, writer pacing, fault subset {write error, EINTR, WouldBlock, short write, short write then WouldBlock, flush error}, guard-drop point, guard dropped normally or by a caught panic unwinding) x schedule; a sixth of the runs have the slow-handshake shape (queue cannot fill, sink stalled 150-800 ms, guard dropped into the stall); non-trivial = at least one line was written AND (the queue was observed full OR a fault fired OR the guard was dropped while lines were queued); distinct = distinct (plan digest, schedule digest)".into()
    }
    fn components(&self) -> Value {
        json!({"real": ["tracing_appender::non_blocking::{NonBlocking,WorkerGuard,ErrorCounter}", "tracing_appender::worker::Worker (its own OS thread, joined into the simulation at its first channel call)"],
               "stub": ["crossbeam-channel (simulated bounded/rendezvous channel, virtual-time timeouts)", "underlying io::Write (scripted sink with pacing and faults)", "clock (virtual)"]})
    }

    fn generate(&self, g: &GenCtx) -> Value {
        let mut rng = Rng::new(g.seed);
        let cap = *rng.pick(&[1u64, 1, 2, 3, 8]);
        let lossy = rng.chance(1, 2);
        let producers = rng.range(1, 4);
        let stall = g.mode == "stall";
        let probe_f9 = g.mode == "probe:F9";
        let delay_ns = *rng.pick(&[0u64, 0, 200_000, 1_000_000, 2_000_000]);
        let max_lines = if g.tier == "thorough" { 12 } else { 8 };
        let mut steps: Vec<Value> = vec![];
        let mut per: Vec<u64> = vec![0; producers as usize + 1];
        // slow-handshake shape (must-hold runs): the queue can never fill (capacity 8, at most 7 lines), the sink is
        // stalled for 150-800 ms right at the start and the guard is dropped into that stall - so enqueueing the
        // shutdown message cannot wait, and the handshake takes longer than the first documented timeout (100 ms)
        // but less than the second (1 s)
        let slow = !stall && !probe_f9 && rng.chance(1, 6);
        let cap = if slow { 8 } else { cap };
        let total = if slow { rng.range(1, 7) } else { rng.range(1, max_lines * producers.min(2)) };
        let drop_at = if slow { 0 } else { rng.below(total + 2) };
        let mut dropped = false;
        if slow {
            steps.push(json!({"t": 0, "op": "gate", "ns": rng.range(150, 800) * 1_000_000}));
            if rng.chance(1, 2) {
                steps.push(json!({"t": 0, "op": "sleep", "ns": rng.range(0, 40) * 1_000_000}));
            }
        }
        for i in 0..total {
            if i == drop_at {
                steps.push(json!({"t": 0, "op": "drop_guard", "unwind": rng.chance(1, 5)}));
                dropped = true;
            }
            match if slow { 11 } else { rng.below(12) } {
                0 => {
                    let ns = if stall { rng.range(120, 1500) * 1_000_000 } else { rng.range(1, 30) * 1_000_000 };
                    steps.push(json!({"t": 0, "op": "gate", "ns": ns}));
                }
                1 => steps.push(json!({"t": 0, "op": "sleep", "ns": rng.range(0, 5) * 1_000_000})),
                _ => {}
            }
            let t = rng.range(1, producers);
            let k = per[t as usize];
            per[t as usize] += 1;
            let len = *rng.pick(&[6u64, 12, 40]);
            steps.push(json!({"t": t, "op": "write", "k": k, "len": len, "via_make_writer": rng.chance(1, 4)}));
            if rng.chance(1, 6) {
                steps.push(json!({"t": t, "op": "sleep", "ns": rng.range(0, 3) * 1_000_000}));
            }
        }
        if !dropped {
            steps.push(json!({"t": 0, "op": "drop_guard"}));
        }
        let mut faults: Vec<Value> = vec![];
        if !rng.chance(1, 3) {
            let nf = rng.range(1, 3);
            for _ in 0..nf {
                let kind = *rng.pick(&["write_err", "write_eintr", "short_write", "flush_err", "write_wouldblock", "short_then_wouldblock"]);
                let nth = if rng.chance(1, 2) { rng.range(1, 3) } else { rng.range(1, total + 2) };
                faults.push(json!({"kind": kind, "nth": nth}));
            }
        }
        if probe_f9 {
            faults.push(json!({"kind": "flush_err_after_drop"}));
        }
        let sched = Sched::swarm(&mut rng, 400);
        json!({
            "engine": "appender", "prop": g.prop, "mode": g.mode,
            "cfg": {"cap": cap, "lossy": lossy, "producers": producers, "delay_ns": delay_ns, "f9_guard": finding_open("F9") && !probe_f9, "builder_order": rng.below(5)},
            "steps": steps, "faults": faults,
            "sched": serde_json::to_value(&sched).unwrap(),
            "hang_is_violation": true,
        })
    }

    fn simplify(&self, plan: &Value) -> Vec<Value> {
        let mut v = vec![];
        if plan["cfg"]["delay_ns"].as_u64().unwrap_or(0) != 0 {
            let mut c = plan.clone();
            c["cfg"]["delay_ns"] = json!(0);
            v.push(c);
        }
        // shorten lines
        let mut c = plan.clone();
        let mut changed = false;
        if let Some(a) = c["steps"].as_array_mut() {
            for s in a.iter_mut() {
                if s["op"] == "write" && s["len"].as_u64().unwrap_or(0) > 6 {
                    s["len"] = json!(6);
                    changed = true;
                }
            }
        }
        if changed {
            v.push(c);
        }
        v
    }

    fn classify_known(&self, plan: &Value, res: &RunResult) -> Option<String> {
        if plan["mode"] == "probe:F9"
            && finding_open("F9")
            && matches!(res.class.as_str(), "drop-timeout" | "writer-not-released")
            && res.faults.get("writer_error_flush_after_guard_drop").copied().unwrap_or(0) > 0
        {
            return Some("F9 flush error in the shutdown batch masks Shutdown: guard drop times out, writer never released".into());
        }
        None
    }

    fn execute(&self, plan: &Value) -> RunResult {
        let sched = plan_sched(plan);
        let cfg = plan["cfg"].clone();
        let steps: Vec<Value> = plan["steps"].as_array().cloned().unwrap_or_default();
        let mode = plan["mode"].as_str().unwrap_or("must").to_string();
        std::panic::set_hook(Box::new(|_| {}));
        let mut f = Faults { write_err: vec![], write_eintr: vec![], write_wouldblock: vec![], short_write: vec![], flush_err: vec![], f9_guard: cfg["f9_guard"].as_bool().unwrap_or(false), flush_err_after_drop: false };
        for x in plan["faults"].as_array().cloned().unwrap_or_default() {
            let n = x["nth"].as_u64().unwrap_or(0);
            match x["kind"].as_str().unwrap_or("") {
                "write_err" => f.write_err.push(n),
                "write_eintr" => f.write_eintr.push(n),
                "write_wouldblock" => f.write_wouldblock.push(n),
                "short_then_wouldblock" => {
                    // a short write whose continuation fails: the line is torn and abandoned, never sent again
                    f.short_write.push(n);
                    f.write_wouldblock.push(n + 1);
                }
                "short_write" => f.short_write.push(n),
                "flush_err" => f.flush_err.push(n),
                "flush_err_after_drop" => f.flush_err_after_drop = true,
                _ => {}
            }
        }
        let faults = Arc::new(f);
        let sink = Arc::new(Mutex::new(SinkState { calls: vec![], nwrite: 0, nflush: 0 }));
        let gate = Arc::new(Gate { closed_until: AtomicU64::new(0) });
        let drop_invoked = Arc::new(AtomicU64::new(0));
        let drop_returned = Arc::new(AtomicU64::new(0));
        let shared: Arc<Mutex<Shared>> = Arc::new(Mutex::new(Shared::default()));
        let plan_s = plan.to_string();
        let (sink2, shared2, di2, dr2) = (sink.clone(), shared.clone(), drop_invoked.clone(), drop_returned.clone());
        let body = move || {
            let cap = cfg["cap"].as_u64().unwrap_or(1) as usize;
            let lossy = cfg["lossy"].as_bool().unwrap_or(true);
            let producers = cfg["producers"].as_u64().unwrap_or(1) as usize;
            let w = SimWriter { st: sink2.clone(), faults: faults.clone(), delay_ns: cfg["delay_ns"].as_u64().unwrap_or(0), gate: gate.clone(), drop_invoked: di2.clone() };
            detsim::allow_foreign(1);
            // builder options in a seeded order, with or without a worker thread name: each option must keep the others
            let b = tracing_appender::non_blocking::NonBlockingBuilder::default();
            let b = match cfg["builder_order"].as_u64().unwrap_or(0) {
                1 => b.lossy(lossy).buffered_lines_limit(cap),
                2 => b.thread_name("sim-appender").buffered_lines_limit(cap).lossy(lossy),
                3 => b.buffered_lines_limit(cap).thread_name("sim-appender").lossy(lossy),
                4 => b.lossy(lossy).buffered_lines_limit(cap).thread_name("sim-appender"),
                _ => b.buffered_lines_limit(cap).lossy(lossy),
            };
            let (nb, guard) = b.finish(w);
            detsim::await_foreign();
            let counter = nb.error_counter();
            let mut tids = vec![];
            for t in 1..=producers {
                let my: Vec<Value> = steps.iter().filter(|s| s["t"].as_u64() == Some(t as u64)).cloned().collect();
                let nb = nb.clone();
                let shared = shared2.clone();
                let tid = detsim::spawn(&format!("producer{t}"), move || {
                    let mut nb = nb;
                    let me = detsim::current();
                    shared.lock().unwrap().thread_of.push((me, t as u64));
                    for s in my {
                        detsim::op_boundary("op");
                        match s["op"].as_str().unwrap_or("") {
                            "write" => {
                                let k = s["k"].as_u64().unwrap_or(0);
                                let buf = line_bytes(t as u64, k, s["len"].as_u64().unwrap_or(6));
                                let inv = detsim::stamp();
                                let r = if s["via_make_writer"].as_bool().unwrap_or(false) {
                                    use tracing_subscriber::fmt::MakeWriter;
                                    let mut w = nb.make_writer();
                                    w.write_all(&buf)
                                } else {
                                    nb.write_all(&buf)
                                };
                                let ret = detsim::stamp();
                                ev(format!("write t{t} k{k} ok={}", r.is_ok()));
                                shared.lock().unwrap().offers.push(Offer { t: t as u64, k, buf, inv, ret, ok: r.is_ok() });
                            }
                            "sleep" => vsleep("producer:sleep", s["ns"].as_u64().unwrap_or(0)),
                            _ => {}
                        }
                    }
                });
                tids.push(tid);
            }
            drop(nb);
            let mut guard = Some(guard);
            let do_drop = |guard: &mut Option<tracing_appender::non_blocking::WorkerGuard>, unwind: bool| {
                if let Some(g) = guard.take() {
                    let t0 = detsim::now_ns();
                    di2.store(detsim::stamp(), Ordering::SeqCst);
                    ev("guard drop invoked");
                    if unwind {
                        // fault: the guard is dropped by a panic unwinding through its owner's frame (caught here); its
                        // drop must wait for the worker exactly as an ordinary drop does
                        fault("guard_dropped_by_unwinding");
                        detsim::set_simulate_unwinding(true);
                        let _ = std::panic::catch_unwind(std::panic::AssertUnwindSafe(move || {
                            let _owned = g;
                            panic!("injected panic while the worker guard is alive");
                        }));
                        detsim::set_simulate_unwinding(false);
                    } else {
                        drop(g);
                    }
                    dr2.store(detsim::stamp(), Ordering::SeqCst);
                    let dt = detsim::now_ns() - t0;
                    ev(format!("guard drop returned after {dt}ns"));
                    shared2.lock().unwrap().drop_virtual_ns = dt;
                }
            };
            for s in steps.iter().filter(|s| s["t"].as_u64() == Some(0)) {
                detsim::op_boundary("op");
                match s["op"].as_str().unwrap_or("") {
                    "drop_guard" => do_drop(&mut guard, s["unwind"].as_bool().unwrap_or(false)),
                    "gate" => {
                        let until = detsim::now_ns() + s["ns"].as_u64().unwrap_or(0);
                        gate.closed_until.store(until, Ordering::SeqCst);
                        fault("writer_gate_closed");
                    }
                    "sleep" => vsleep("controller:sleep", s["ns"].as_u64().unwrap_or(0)),
                    _ => {}
                }
            }
            for t in tids {
                detsim::join(t);
            }
            do_drop(&mut guard, false);
            shared2.lock().unwrap().dropped_lines = counter.dropped_lines() as u64;
        };
        let mode2 = mode.clone();
        let finish = move || {
            let chan = crossbeam_channel::__verif_take_log();
            let sh = shared.lock().unwrap();
            let sk = sink.lock().unwrap();
            oracle(&mode2, &chan, &sh, &sk.calls, drop_invoked.load(Ordering::SeqCst), drop_returned.load(Ordering::SeqCst), plan_lossy(&plan_s));
        };
        simulate(&plan.to_string(), &sched, None, body, finish)
    }
}

fn plan_lossy(plan_s: &str) -> bool {
    serde_json::from_str::<Value>(plan_s).ok().and_then(|v| v["cfg"]["lossy"].as_bool()).unwrap_or(true)
}

#[derive(Default)]
struct Shared {
    offers: Vec<Offer>,
    thread_of: Vec<(usize, u64)>,
    dropped_lines: u64,
    drop_virtual_ns: u64,
}
struct Offer {
    t: u64,
    k: u64,
    buf: Vec<u8>,
    inv: u64,
    ret: u64,
    ok: bool,
}

static _UNUSED: AtomicBool = AtomicBool::new(false);

/// A6 queue model, evaluated over the recorded history at quiescence.
fn oracle(mode: &str, chan: &[VerifEvent], sh: &Shared, calls: &[WCall], drop_inv: u64, drop_ret: u64, lossy: bool) {
    // --- accept order from the channel log: the line channel is the one with the lowest id seen
    let line_chan = match chan.iter().map(|e| e.chan).min() {
        Some(c) => c,
        None => return,
    };
    let rdv_chan = line_chan + 1;
    // per producer: k-th send attempt <-> k-th write
    let mut accepted: Vec<(u64, u64, u64)> = vec![]; // (t, k, accept stamp) in accept order
    let mut failures = 0u64;
    let mut per_thread_idx: std::collections::BTreeMap<usize, u64> = Default::default();
    let mut queue_full_seen = false;
    let mut producer_waited = false;
    for e in chan.iter().filter(|e| e.chan == line_chan) {
        let t = sh.thread_of.iter().find(|(sim, _)| *sim == e.thread).map(|(_, t)| *t);
        match e.kind {
            VerifKind::SendWaited => {
                if t.is_some() {
                    producer_waited = true;
                    queue_full_seen = true;
                }
            }
            VerifKind::SendOk | VerifKind::SendFull | VerifKind::SendDisconnected | VerifKind::SendTimeout => {
                if let Some(t) = t {
                    let k = per_thread_idx.entry(e.thread).or_insert(0);
                    if e.kind == VerifKind::SendOk {
                        accepted.push((t, *k, e.stamp));
                    } else {
                        failures += 1;
                        if e.kind == VerifKind::SendFull {
                            queue_full_seen = true;
                        }
                    }
                    *k += 1;
                }
            }
            _ => {}
        }
    }
    if queue_full_seen {
        probe("queue-full-observed");
    }
    if producer_waited {
        probe("nonlossy-producer-waited");
    }
    let timeouts = chan.iter().filter(|e| e.kind == VerifKind::SendTimeout).count();
    // --- group the sink's write calls into line attempts
    let known: std::collections::HashMap<&[u8], (u64, u64)> = sh.offers.iter().map(|o| (o.buf.as_slice(), (o.t, o.k))).collect();
    #[derive(Debug)]
    struct Attempt {
        line: (u64, u64),
        written: bool,
        failed: bool,
        last_stamp: u64,
    }
    let mut attempts: Vec<Attempt> = vec![];
    let mut cur: Option<(Vec<u8>, usize, usize)> = None; // (full line, offset written so far, attempt index)
    let mut writer_dropped_at: Option<u64> = None;
    let mut last_write_stamp = 0u64;
    let mut flush_after_last_write = false;
    for c in calls {
        match c {
            WCall::Write { stamp, buf, res } => {
                last_write_stamp = *stamp;
                flush_after_last_write = false;
                if writer_dropped_at.is_some() {
                    violation("use-after-release", "write after the underlying writer was dropped");
                }
                let continuing = match &cur {
                    Some((full, off, _)) => &full[*off..] == buf.as_slice(),
                    None => false,
                };
                let idx = if continuing {
                    cur.as_ref().unwrap().2
                } else if let Some(&line) = known.get(buf.as_slice()) {
                    if let Some((full, off, i)) = &cur {
                        if *off < full.len() && !attempts[*i].failed {
                            violation("torn-line", format!("line {:?} abandoned after {} of {} bytes without an error", attempts[*i].line, off, full.len()));
                        }
                    }
                    attempts.push(Attempt { line, written: false, failed: false, last_stamp: *stamp });
                    cur = Some((buf.clone(), 0, attempts.len() - 1));
                    attempts.len() - 1
                } else {
                    violation("torn-line", format!("write call with a buffer that is neither an accepted line nor the continuation of one: {:?}", String::from_utf8_lossy(buf)));
                    continue;
                };
                attempts[idx].last_stamp = *stamp;
                match res {
                    Ok(n) => {
                        let (full, off, _) = cur.as_mut().unwrap();
                        *off += *n;
                        if *off >= full.len() {
                            attempts[idx].written = true;
                            cur = None;
                        }
                    }
                    Err(io::ErrorKind::Interrupted) => {}
                    Err(_) => {
                        attempts[idx].failed = true;
                        cur = None;
                    }
                }
            }
            WCall::Flush { .. } => {
                flush_after_last_write = true;
                if writer_dropped_at.is_some() {
                    violation("use-after-release", "flush after the underlying writer was dropped");
                }
            }
            WCall::Dropped { stamp } => writer_dropped_at = Some(*stamp),
        }
    }
    if let Some((full, off, i)) = &cur {
        // only once the worker is finished with the writer; otherwise the line is merely in flight
        if writer_dropped_at.is_some() && !attempts[*i].failed && *off < full.len() {
            violation("torn-line", format!("line {:?} left incomplete at quiescence ({} of {} bytes)", attempts[*i].line, off, full.len()));
        }
    }
    // --- never-clauses: no duplicate, order consistent with accept order
    let mut seen = std::collections::HashSet::new();
    for a in &attempts {
        if !seen.insert(a.line) {
            violation("dup-line", format!("line {:?} handed to the underlying writer more than once", a.line));
        }
    }
    {
        let mut pos = 0usize;
        for a in &attempts {
            match accepted[pos..].iter().position(|(t, k, _)| (*t, *k) == a.line) {
                Some(p) => pos += p + 1,
                None => {
                    if accepted.iter().any(|(t, k, _)| (*t, *k) == a.line) {
                        violation("reordered", format!("line {:?} written out of accept order", a.line));
                    } else {
                        violation("spurious-line", format!("line {:?} written but never accepted by the channel", a.line));
                    }
                    break;
                }
            }
        }
    }
    let written = attempts.iter().filter(|a| a.written).count();
    if written > 0 {
        probe_n("lines-written", written as u64);
    }
    // --- accounting that holds in every configuration
    if lossy {
        if sh.dropped_lines != failures {
            violation("bad-drop-count", format!("dropped_lines()={} but {} try_send attempts failed", sh.dropped_lines, failures));
        }
    } else if sh.dropped_lines != 0 {
        violation("nonlossy-dropped", format!("dropped_lines()={} in non-lossy mode", sh.dropped_lines));
    }
    let queued_at_drop = accepted.iter().filter(|(_, _, s)| *s < drop_inv).count() > attempts.iter().filter(|a| a.last_stamp < drop_inv).count();
    if queued_at_drop {
        probe("guard-dropped-with-lines-queued");
    }
    let any_fault = calls.iter().any(|c| matches!(c, WCall::Write { res: Err(_), .. } | WCall::Flush { ok: false, .. }));
    if written > 0 && (queue_full_seen || any_fault || queued_at_drop) {
        nontrivial();
    }
    if mode == "stall" {
        // documented timeouts may fire: only the never-clauses above apply, plus "the drop returned"
        if drop_ret == 0 {
            violation("drop-did-not-return", "guard drop never returned");
        }
        return;
    }
    // --- must-hold clauses (stalls are kept shorter than the guard's documented timeouts)
    if timeouts > 0 {
        violation("drop-timeout", format!("the guard's shutdown handshake timed out ({} timeouts) although every stall was shorter than its timeouts; drop took {} ns of virtual time", timeouts, sh.drop_virtual_ns));
    }
    let _ = rdv_chan;
    for (t, k, s) in &accepted {
        if *s < drop_inv {
            match attempts.iter().find(|a| a.line == (*t, *k)) {
                None => violation("lost-line", format!("line ({t},{k}) was accepted before the guard was dropped but never reached the underlying writer")),
                Some(a) => {
                    if a.last_stamp > drop_ret {
                        violation("late-line", format!("line ({t},{k}) accepted before the drop was written only after the drop returned"));
                    }
                    if !a.written && !a.failed {
                        violation("lost-line", format!("line ({t},{k}) only partially written"));
                    }
                }
            }
        }
    }
    for o in &sh.offers {
        if !o.ok && o.ret < drop_inv {
            violation("write-error-before-drop", format!("write of line ({},{}) returned an error although the guard was still alive", o.t, o.k));
        }
        let _ = o.inv;
    }
    match writer_dropped_at {
        None => violation("writer-not-released", "the underlying writer was not dropped by the time the guard's drop returned"),
        Some(s) => {
            if s > drop_ret {
                violation("writer-not-released", "the underlying writer was dropped only after the guard's drop returned");
            }
        }
    }
    if last_write_stamp != 0 && !flush_after_last_write {
        violation("no-flush-after-last", "no flush followed the last write to the underlying writer");
    }
}
