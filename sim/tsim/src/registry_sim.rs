//! registry-sim: C05 (a registry span closes exactly once, after its last reference and last child)
//! and C06 (current span, parent and scope mirror each thread's enter/exit history).
//! Real `Registry` under `Layered` with two recording layers and tracing-error's `ErrorSubscriber`.
use crate::driver::finding_open;
use crate::fw::*;
use crate::reclayer::{self, LRec, RecLayer};
use crate::sites;
use detsim::Rng;
use serde_json::{json, Value};
use std::collections::{BTreeMap, HashMap};
use std::sync::atomic::{AtomicUsize, Ordering};
use std::sync::Mutex;
use tracing::Span;
use tracing_core::dispatch::{self, Dispatch};
use tracing_core::span::Id;
use tracing_subscriber::prelude::*;
use tracing_subscriber::registry::{LookupSpan, Registry};

pub struct RegistryEngine;

#[derive(Clone, Debug, Default)]
struct H {
    gi: usize,
    t: usize,
    op: String,
    inv: u64,
    ret: u64,
    applied: bool,
    /// span the op refers to (uid = the `val` given at creation), 0 = none
    uid: u64,
    /// second span (clone source, explicit parent, ...)
    uid2: u64,
    id: u64,
    parent_kind: i64,
    foreign: bool,
    cur_id: u64,
    trace: Vec<u64>,
    panicked: String,
    handle: u64,
}

static HIST: Mutex<Vec<H>> = Mutex::new(Vec::new());
static TURN: AtomicUsize = AtomicUsize::new(0);
const NSLOTS: usize = 16;

struct Slot {
    span: Span,
    uid: u64,
    handle: u64,
}
struct World {
    slots: Vec<Option<Slot>>,
    traces: Vec<Option<(tracing_error::SpanTrace, u64, u64)>>,
    next_handle: u64,
    stacks: Vec<Dispatch>,
}
static WORLD: Mutex<Option<World>> = Mutex::new(None);

fn build_stack(stack: usize) -> Dispatch {
    let reg = Registry::default().with(RecLayer::new(stack, 0)).with(tracing_error::ErrorSubscriber::default()).with(RecLayer::new(stack, 1));
    Dispatch::new(reg)
}

fn uid_of_id(stack: usize, id: u64) -> u64 {
    // latest on_new_span of layer 0 with this id
    let log = reclayer::LLOG.lock().unwrap();
    log.iter().rev().find(|r| r.stack == stack && r.layer == 0 && r.kind == "on_new_span" && r.id == id).map(|r| r.val).unwrap_or(0)
}

/// Run `f` on the handle in `slot` without holding any harness lock while code under test runs
/// (the slot is emptied for the duration; slots are only ever used by one thread at a time).
fn with_slot<R>(slot: usize, f: impl FnOnce(&Span, u64) -> R) -> Option<R> {
    let taken = WORLD.lock().unwrap().as_mut().unwrap().slots[slot].take();
    match taken {
        Some(x) => {
            let r = f(&x.span, x.uid);
            WORLD.lock().unwrap().as_mut().unwrap().slots[slot] = Some(x);
            Some(r)
        }
        None => None,
    }
}

struct ThreadCtx {
    entered: Vec<(u64, Id, Dispatch)>,
}

fn with_under<R>(under: &str, f: impl FnOnce() -> R) -> R {
    match under {
        "B" => {
            let b = WORLD.lock().unwrap().as_ref().unwrap().stacks[1].clone();
            dispatch::with_default(&b, f)
        }
        "none" => dispatch::with_default(&Dispatch::none(), f),
        _ => f(),
    }
}

fn exec_step(gi: usize, t: usize, s: &Value, tc: &mut ThreadCtx) {
    let op = s["op"].as_str().unwrap_or("").to_string();
    let under = s["under"].as_str().unwrap_or("").to_string();
    let mut h = H { gi, t, op: op.clone(), applied: true, foreign: !under.is_empty(), ..Default::default() };
    let slot = s["slot"].as_u64().unwrap_or(0) as usize % NSLOTS;
    h.inv = detsim::stamp();
    let r = std::panic::catch_unwind(std::panic::AssertUnwindSafe(|| {
        match op.as_str() {
            "new" => {
                let occupied = WORLD.lock().unwrap().as_ref().unwrap().slots[slot].is_some();
                if occupied {
                    h.applied = false;
                    return;
                }
                let site = s["site"].as_u64().unwrap_or(0) as usize % sites::N;
                let uid = (gi as u64 + 1) * 1000;
                let pk = s["parent"].as_i64().unwrap_or(-1);
                h.parent_kind = pk;
                // spans are always created under their home stack (a handle remembers its collector)
                let span = if pk == -2 {
                    sites::make_root_span(site, uid)
                } else if pk >= 0 {
                    let made = with_slot(pk as usize % NSLOTS, |p, puid| (sites::make_child_span(site, uid, p), puid));
                    match made {
                        Some((sp, puid)) => {
                            h.uid2 = puid;
                            sp
                        }
                        None => {
                            h.parent_kind = -1;
                            sites::make_span(site, uid)
                        }
                    }
                } else {
                    sites::make_span(site, uid)
                };
                h.uid = uid;
                h.id = span.id().map(|i| i.into_u64()).unwrap_or(0);
                let mut w = WORLD.lock().unwrap();
                let w = w.as_mut().unwrap();
                w.next_handle += 1;
                h.handle = w.next_handle;
                w.slots[slot] = Some(Slot { span, uid, handle: h.handle });
            }
            "clone" => {
                let b = s["b"].as_u64().unwrap_or(0) as usize % NSLOTS;
                let b_free = WORLD.lock().unwrap().as_ref().unwrap().slots[b].is_none();
                let src = if b_free && b != slot { with_slot(slot, |sp, uid| (sp.clone(), uid)) } else { None };
                match src {
                    Some((sp, uid)) => {
                        h.uid = uid;
                        let mut w = WORLD.lock().unwrap();
                        let w = w.as_mut().unwrap();
                        w.next_handle += 1;
                        h.handle = w.next_handle;
                        w.slots[b] = Some(Slot { span: sp, uid, handle: h.handle });
                    }
                    None => h.applied = false,
                }
            }
            "drop" => {
                let x = WORLD.lock().unwrap().as_mut().unwrap().slots[slot].take();
                match x {
                    Some(x) => {
                        h.uid = x.uid;
                        h.handle = x.handle;
                        if s["unwind"].as_bool().unwrap_or(false) {
                            // fault: the handle is dropped by a panic unwinding through its owner's frame
                            fault("handle_dropped_by_unwinding");
                            with_under(&under, || {
                                let _ = std::panic::catch_unwind(std::panic::AssertUnwindSafe(move || {
                                    let _owned = x.span;
                                    panic!("injected panic while a span handle is alive");
                                }));
                            });
                        } else if s["cb_panic"].as_bool().unwrap_or(false) {
                            // fault: the outermost layer's on_close panics (caught here); if this drop closes the span
                            // it must be removed, and its parent released, all the same
                            crate::reclayer::PANIC_NEXT_ON_CLOSE.with(|c| c.set(x.span.id().map_or(0, |i| i.into_u64())));
                            let _ = std::panic::catch_unwind(std::panic::AssertUnwindSafe(|| with_under(&under, || drop(x.span))));
                            crate::reclayer::PANIC_NEXT_ON_CLOSE.with(|c| c.set(0));
                        } else {
                            with_under(&under, || drop(x.span));
                        }
                    }
                    None => h.applied = false,
                }
            }
            "arm_work" => {
                // reentrancy: when the span in `slot` closes, the outermost layer runs a short-lived span of its own
                match with_slot(slot, |sp, uid| (sp.id().map(|i| i.into_u64()).unwrap_or(0), uid)) {
                    Some((id, uid)) if id != 0 => {
                        h.uid = uid;
                        crate::reclayer::WORK_ON_CLOSE.lock().unwrap().push(id);
                    }
                    _ => h.applied = false,
                }
            }
            "arm" => {
                // reentrancy: hand the handle in `slot` to the outermost layer, which will drop it inside `on_close`
                // of the span in slot `trig` (a layer that keeps spans alive on behalf of another span)
                let trig = s["trig"].as_u64().unwrap_or(0) as usize % NSLOTS;
                let tinfo = with_slot(trig, |sp, uid| (sp.id().map(|i| i.into_u64()).unwrap_or(0), uid));
                let x = WORLD.lock().unwrap().as_mut().unwrap().slots[slot].take();
                match (x, tinfo) {
                    (Some(x), Some((tid, tuid))) if tid != 0 && tuid != x.uid && trig != slot => {
                        h.uid = x.uid;
                        h.handle = x.handle;
                        h.uid2 = tuid;
                        crate::reclayer::RELEASE_ON_CLOSE.lock().unwrap().push((tid, x.span));
                    }
                    (x, _) => {
                        h.applied = false;
                        if let Some(x) = x {
                            WORLD.lock().unwrap().as_mut().unwrap().slots[slot] = Some(x);
                        }
                    }
                }
            }
            "enter" => {
                let x = with_slot(slot, |sp, uid| sp.with_collector(|(id, d)| (uid, id.clone(), d.clone()))).flatten();
                match x {
                    Some((uid, id, d)) => {
                        h.uid = uid;
                        h.id = id.into_u64();
                        d.enter(&id);
                        tc.entered.push((uid, id, d));
                    }
                    None => h.applied = false,
                }
            }
            "exit" => {
                if tc.entered.is_empty() {
                    h.applied = false;
                } else {
                    let idx = s["idx"].as_u64().unwrap_or(0) as usize % tc.entered.len();
                    // remove the LAST entry with that uid (mirrors what exiting a span means)
                    let uid = tc.entered[idx].0;
                    let pos = tc.entered.iter().rposition(|e| e.0 == uid).unwrap();
                    let (uid, id, d) = tc.entered.remove(pos);
                    h.uid = uid;
                    h.id = id.into_u64();
                    if s["unwind"].as_bool().unwrap_or(false) {
                        // fault: the span is exited by a guard that is dropped while a panic unwinds
                        fault("exit_by_unwinding");
                        struct ExitOnDrop<'a>(&'a Dispatch, &'a tracing_core::span::Id);
                        impl Drop for ExitOnDrop<'_> {
                            fn drop(&mut self) {
                                self.0.exit(self.1);
                            }
                        }
                        with_under(&under, || {
                            let _ = std::panic::catch_unwind(std::panic::AssertUnwindSafe(|| {
                                let _g = ExitOnDrop(&d, &id);
                                panic!("injected panic while a span is entered");
                            }));
                        });
                    } else if s["cb_panic"].as_bool().unwrap_or(false) {
                        // fault: the outermost layer's on_exit panics (caught here); the span must be exited all the same
                        crate::reclayer::PANIC_NEXT_ON_EXIT.with(|c| c.set(true));
                        let _ = std::panic::catch_unwind(std::panic::AssertUnwindSafe(|| with_under(&under, || d.exit(&id))));
                        crate::reclayer::PANIC_NEXT_ON_EXIT.with(|c| c.set(false));
                    } else {
                        with_under(&under, || d.exit(&id));
                    }
                }
            }
            "current" => {
                let occupied = WORLD.lock().unwrap().as_ref().unwrap().slots[slot].is_some();
                if occupied {
                    h.applied = false;
                    return;
                }
                let sp = Span::current();
                match sp.id() {
                    Some(id) => {
                        h.id = id.into_u64();
                        h.uid = uid_of_id(0, h.id);
                        let mut w = WORLD.lock().unwrap();
                        let w = w.as_mut().unwrap();
                        w.next_handle += 1;
                        h.handle = w.next_handle;
                        w.slots[slot] = Some(Slot { span: sp, uid: h.uid, handle: h.handle });
                    }
                    None => {
                        h.uid = 0;
                    }
                }
            }
            "check_current" => {
                let sp = Span::current();
                h.cur_id = sp.id().map(|i| i.into_u64()).unwrap_or(0);
                drop(sp);
            }
            "event" => {
                let site = s["site"].as_u64().unwrap_or(0) as usize % sites::N;
                let uid = (gi as u64 + 1) * 1000;
                h.uid = uid;
                let pk = s["parent"].as_i64().unwrap_or(-1);
                h.parent_kind = pk;
                if pk == -2 {
                    sites::emit_event_root(site, uid);
                } else if pk >= 0 {
                    match with_slot(pk as usize % NSLOTS, |p, puid| {
                        sites::emit_event_in(site, uid, p);
                        puid
                    }) {
                        Some(puid) => h.uid2 = puid,
                        None => {
                            h.parent_kind = -1;
                            sites::emit_event(site, uid);
                        }
                    }
                } else {
                    sites::emit_event(site, uid);
                }
            }
            "trace_capture" => {
                let tr = s["tr"].as_u64().unwrap_or(0) as usize % 4;
                let occupied = WORLD.lock().unwrap().as_ref().unwrap().traces[tr].is_some();
                if occupied {
                    h.applied = false;
                    return;
                }
                let cur = Span::current();
                let cid = cur.id().map(|i| i.into_u64()).unwrap_or(0);
                drop(cur);
                let trace = tracing_error::SpanTrace::capture();
                h.id = cid;
                h.uid = if cid != 0 { uid_of_id(0, cid) } else { 0 };
                let mut w = WORLD.lock().unwrap();
                let w = w.as_mut().unwrap();
                w.next_handle += 1;
                h.handle = w.next_handle;
                w.traces[tr] = Some((trace, h.uid, h.handle));
            }
            "trace_walk" => {
                let tr = s["tr"].as_u64().unwrap_or(0) as usize % 4;
                let x = WORLD.lock().unwrap().as_mut().unwrap().traces[tr].take();
                match x {
                    Some((trace, uid, hd)) => {
                        h.uid = uid;
                        let mut vals = vec![];
                        // a captured trace is walked through the collector it was captured under, whatever the
                        // walking thread's default is at that moment
                        with_under(&under, || {
                            trace.with_spans(|_meta, fields| {
                                // fields look like `site=3 val=5000`
                                let v = fields.split_whitespace().find_map(|kv| kv.strip_prefix("val=")).and_then(|x| x.parse::<u64>().ok()).unwrap_or(0);
                                vals.push(v);
                                true
                            });
                        });
                        h.trace = vals;
                        WORLD.lock().unwrap().as_mut().unwrap().traces[tr] = Some((trace, uid, hd));
                    }
                    None => h.applied = false,
                }
            }
            "trace_drop" => {
                let tr = s["tr"].as_u64().unwrap_or(0) as usize % 4;
                let x = WORLD.lock().unwrap().as_mut().unwrap().traces[tr].take();
                match x {
                    Some((trace, uid, hd)) => {
                        h.uid = uid;
                        h.handle = hd;
                        drop(trace);
                    }
                    None => h.applied = false,
                }
            }
            "churn" => {
                let n = s["n"].as_u64().unwrap_or(1);
                for j in 0..n {
                    let sp = sites::make_root_span((j % 20) as usize, 500_000_000 + gi as u64 * 100 + j);
                    drop(sp);
                }
            }
            _ => h.applied = false,
        }
    }));
    if let Err(p) = r {
        h.panicked = detsim::panic_msg(&p);
    }
    h.ret = detsim::stamp();
    ev(format!("op {gi} t{t} {op} slot{slot} applied={} uid={} uid2={} id={} cur={} trace={:?} panic={:?}", h.applied, h.uid, h.uid2, h.id, h.cur_id, h.trace, h.panicked));
    HIST.lock().unwrap().push(h);
}

/// index of the thread that is started only after every other thread has ended
const LATE_T: usize = 7;

fn thread_body(t: usize, mine: Vec<(usize, Value)>, sync: bool, home_scoped: bool, leave_entered: bool) {
    let _g = if home_scoped {
        let a = WORLD.lock().unwrap().as_ref().unwrap().stacks[0].clone();
        Some(dispatch::set_default(&a))
    } else {
        None
    };
    let mut tc = ThreadCtx { entered: vec![] };
    for (gi, s) in mine {
        if sync {
            detsim::op_boundary("op");
        } else {
            detsim::block_until("turn", None, || TURN.load(Ordering::SeqCst) == gi);
        }
        exec_step(gi, t, &s, &mut tc);
        if !sync {
            TURN.store(gi + 1, Ordering::SeqCst);
            detsim::progress();
        }
    }
    if leave_entered && t == 1 && !tc.entered.is_empty() {
        // thread-exit effect: the thread ends while still inside its spans
        fault("thread_exit_inside_a_span");
        return;
    }
    // leave every span that is still entered on this thread (recorded like ordinary exits)
    let mut n = 0;
    while !tc.entered.is_empty() {
        let s = json!({"op": "exit", "idx": tc.entered.len() - 1});
        exec_step(1_000_000 + t * 1000 + n, t, &s, &mut tc);
        n += 1;
    }
}

impl Engine for RegistryEngine {
    fn name(&self) -> &'static str {
        "registry-sim"
    }
    fn props(&self) -> &'static [&'static str] {
        &["C05", "C06"]
    }
    fn modes(&self, prop: &str) -> Vec<String> {
        let mut m = vec!["must".to_string()];
        if prop == "C05" && finding_open("F2") {
            m.push("probe:F2".into());
        }
        if prop == "C06" && finding_open("F32") {
            m.push("probe:F32".into());
        }
        m
    }
    fn rule(&self, prop: &str) -> String {
        match prop {
            "C05" => "history (op granularity) or schedule (sync granularity; preemption at every registry ref-count operation via hook H2, at every tracing-core atomic and lock) over a span forest: create (contextual/explicit/root parent), clone, drop, raw enter/exit in any order incl. handle dropped while entered, Span::current captures, slot-reuse churn; reentrancy (total-order runs): the outermost layer releases span handles, or runs a short-lived span of its own, inside another span's on_close; faults: handle dropped / span exited by unwinding, the outermost layer panics in on_close (caught); per layer nothing may be heard about a span after its close; a quarter of the scheduled runs are duels (one span: a thread enters and leaves it while another drops the last handle); home default installed as scoped or as global default; non-trivial = at least one span closed by an exit or by a cascade from a child, and at least 3 spans; distinct = distinct (plan, schedule digest)".into(),
            _ => "history (total order of operations on 1-3 threads) of enter/exit incl. out-of-order exits and one span entered on several threads, span creation with contextual/explicit/root parents, events with contextual/explicit/root parents, Span::current, SpanTrace capture/walk while ancestors' handles are dropped; a quarter of the total-order runs start one more thread after every other thread has ended (thread-start effect; in the F32 probe configuration thread 1 ends while still inside a span); non-trivial = at least one contextual creation or event inside a nesting of depth >= 2 and at least one out-of-order exit or cross-thread enter; distinct = distinct plan digest".into(),
        }
    }
    fn components(&self) -> Value {
        json!({"real": ["tracing_subscriber::Registry (sharded-slab, per-thread span stack, CLOSE_COUNT)", "Layered", "tracing::Span handles / Dispatch enter/exit/try_close", "tracing_error::{ErrorSubscriber, SpanTrace}", "OS threads"],
               "stub": ["recording layers (RecLayer)", "portable-atomic / parking_lot shims (yield points)"]})
    }

    fn generate(&self, g: &GenCtx) -> Value {
        let mut rng = Rng::new(g.seed);
        let prop = g.prop.as_str();
        let thorough = g.tier == "thorough";
        let sync = if prop == "C05" { rng.chance(1, 2) } else { rng.chance(1, 4) };
        let probe_f32 = g.mode == "probe:F32";
        let sync = sync && !probe_f32;
        let nthreads = if probe_f32 { 2 } else if sync { rng.range(2, 3) } else { rng.range(1, 3) };
        let probe_f2 = g.mode == "probe:F2";
        let f10_guard = finding_open("F10");
        let home = if rng.chance(1, 2) { "scoped" } else { "global" };
        let mut pre: Vec<Value> = vec![];
        let mut steps: Vec<Value> = vec![];
        // generation-time mirror: which slots hold a handle, owner of each slot (sync mode), what is entered
        let mut has: Vec<bool> = vec![false; NSLOTS];
        let mut ident: Vec<u64> = vec![0; NSLOTS]; // generation-time identity of the span a slot refers to
        let mut next_ident = 1u64;
        let mut entered: Vec<Vec<u64>> = vec![vec![]; nthreads as usize]; // identities in enter order
        let owner = |slot: usize, nthreads: u64| -> u64 { (slot as u64) % nthreads };
        if rng.chance(1, 3) {
            pre.push(json!({"t": 0, "op": "churn", "n": rng.range(1, 6)}));
        }
        if sync {
            // pre-phase on the main thread: a forest, then handles cloned into per-thread slots
            let nsp = rng.range(1, 4);
            for i in 0..nsp {
                let slot = i as usize;
                let parent = if i > 0 && rng.chance(2, 3) { rng.below(i) as i64 } else { -2 };
                pre.push(json!({"t": 0, "op": "new", "slot": slot, "site": rng.below(20), "parent": parent}));
                has[slot] = true;
                ident[slot] = next_ident;
                next_ident += 1;
            }
            let mut next = nsp as usize;
            for _ in 0..rng.range(1, 5) {
                if next >= NSLOTS {
                    break;
                }
                let a = rng.below(nsp) as usize;
                pre.push(json!({"t": 0, "op": "clone", "slot": a, "b": next}));
                has[next] = true;
                ident[next] = ident[a];
                next += 1;
            }
            // some originals are dropped by main before the race so that threads hold the last handles
            for i in 0..nsp as usize {
                if rng.chance(1, 2) {
                    pre.push(json!({"t": 0, "op": "drop", "slot": i}));
                    has[i] = false;
                }
            }
        }
        let mut nsteps = if sync { rng.range(3, 14) } else { rng.range(5, if thorough { 50 } else { 32 }) };
        if sync && prop == "C05" && !probe_f2 && rng.chance(1, 4) {
            // duel shape: one span; thread 1 enters and leaves it while another thread drops what may be its last
            // handle - few operations, so that a single preemption decides the order
            pre.clear();
            steps.clear();
            has = vec![false; NSLOTS];
            pre.push(json!({"t": 0, "op": "new", "slot": 0, "site": rng.below(20), "parent": -2}));
            pre.push(json!({"t": 0, "op": "clone", "slot": 0, "b": 1}));
            pre.push(json!({"t": 0, "op": "clone", "slot": 0, "b": 2}));
            pre.push(json!({"t": 0, "op": "drop", "slot": 0}));
            ident[1] = next_ident;
            ident[2] = next_ident;
            next_ident += 1;
            has[1] = true;
            let other = 2 % nthreads;
            steps.push(json!({"t": 1, "op": "enter", "slot": 1}));
            if rng.chance(1, 2) {
                steps.push(json!({"t": 1, "op": "drop", "slot": 1}));
                has[1] = false;
            }
            steps.push(json!({"t": 1, "op": "exit", "idx": 0}));
            steps.push(json!({"t": other, "op": "drop", "slot": 2}));
            nsteps = rng.range(0, 3);
        }
        for _ in 0..nsteps {
            let t = rng.below(nthreads);
            let tt = t as usize;
            let mine: Vec<usize> = (0..NSLOTS).filter(|s| has[*s] && (!sync || owner(*s, nthreads) == t)).collect();
            let free: Vec<usize> = (0..NSLOTS).filter(|s| !has[*s] && (!sync || owner(*s, nthreads) == t)).collect();
            let roll = rng.below(100);
            let mut st = None;
            if (mine.is_empty() || roll < 22) && !free.is_empty() {
                let slot = *rng.pick(&free);
                let parent: i64 = match rng.below(4) {
                    0 => -2,
                    1 | 2 => -1,
                    _ => {
                        if mine.is_empty() {
                            -1
                        } else {
                            *rng.pick(&mine) as i64
                        }
                    }
                };
                has[slot] = true;
                ident[slot] = next_ident;
                next_ident += 1;
                st = Some(json!({"t": t, "op": "new", "slot": slot, "site": rng.below(20), "parent": parent}));
            } else if !mine.is_empty() {
                let slot = *rng.pick(&mine);
                st = Some(match roll {
                    22..=33 => {
                        if let Some(&b) = free.first() {
                            has[b] = true;
                            ident[b] = ident[slot];
                            json!({"t": t, "op": "clone", "slot": slot, "b": b})
                        } else {
                            json!({"t": t, "op": "check_current"})
                        }
                    }
                    34..=52 => {
                        has[slot] = false;
                        if rng.chance(1, 6) {
                            json!({"t": t, "op": "drop", "slot": slot, "unwind": true})
                        } else if !sync && rng.chance(1, 8) {
                            json!({"t": t, "op": "drop", "slot": slot, "cb_panic": true})
                        } else {
                            json!({"t": t, "op": "drop", "slot": slot})
                        }
                    }
                    53..=70 => {
                        // C06 excludes re-entering a span that is already entered on the same thread
                        if prop == "C06" && entered[tt].contains(&ident[slot]) {
                            json!({"t": t, "op": "check_current"})
                        } else {
                            entered[tt].push(ident[slot]);
                            json!({"t": t, "op": "enter", "slot": slot})
                        }
                    }
                    71..=84 => {
                        if entered[tt].is_empty() {
                            json!({"t": t, "op": "check_current"})
                        } else {
                            let idx = if rng.chance(2, 3) { entered[tt].len() - 1 } else { rng.below(entered[tt].len() as u64) as usize };
                            // mirror the harness: the LAST entry of that span is removed
                            let sl = entered[tt][idx];
                            let pos = entered[tt].iter().rposition(|x| *x == sl).unwrap();
                            entered[tt].remove(pos);
                            if rng.chance(1, 6) {
                                json!({"t": t, "op": "exit", "idx": idx, "unwind": true})
                            } else if g.prop == "C06" && rng.chance(1, 8) {
                                json!({"t": t, "op": "exit", "idx": idx, "cb_panic": true})
                            } else {
                                json!({"t": t, "op": "exit", "idx": idx})
                            }
                        }
                    }
                    85..=89 => {
                        if let (Some(&b), Some(&top)) = (free.first(), entered[tt].last()) {
                            has[b] = true;
                            ident[b] = top;
                            json!({"t": t, "op": "current", "slot": b})
                        } else {
                            json!({"t": t, "op": "check_current"})
                        }
                    }
                    _ => {
                        if prop == "C06" {
                            // under seeded schedules each trace slot belongs to one thread
                            let own: Vec<u64> = (0..4u64).filter(|x| !sync || x % nthreads == t).collect();
                            match rng.below(5) {
                                0 => json!({"t": t, "op": "trace_capture", "tr": *rng.pick(&own)}),
                                1 => {
                                    if rng.chance(1, 2) {
                                        json!({"t": t, "op": "trace_walk", "tr": *rng.pick(&own), "under": *rng.pick(&["B", "none"])})
                                    } else {
                                        json!({"t": t, "op": "trace_walk", "tr": *rng.pick(&own)})
                                    }
                                }
                                2 => json!({"t": t, "op": "trace_drop", "tr": *rng.pick(&own)}),
                                _ => json!({"t": t, "op": "event", "site": rng.below(20), "parent": *rng.pick(&[-1i64, -1, -2, slot as i64])}),
                            }
                        } else if !sync && !probe_f2 && rng.chance(1, 4) {
                            json!({"t": t, "op": "arm_work", "slot": slot})
                        } else if !sync && mine.len() >= 2 && rng.chance(1, 2) {
                            let trig = *rng.pick(&mine);
                            if trig != slot && ident[trig] != ident[slot] {
                                has[slot] = false;
                                json!({"t": t, "op": "arm", "slot": slot, "trig": trig})
                            } else {
                                json!({"t": t, "op": "event", "site": rng.below(20), "parent": -1})
                            }
                        } else {
                            json!({"t": t, "op": "event", "site": rng.below(20), "parent": -1})
                        }
                    }
                });
            }
            if let Some(mut st) = st {
                if probe_f2 && matches!(st["op"].as_str(), Some("exit") | Some("drop")) && rng.chance(1, 2) {
                    st["under"] = json!(*rng.pick(&["B", "none"]));
                }
                steps.push(st);
            }
        }
        if prop == "C06" {
            // sprinkle observations
            let n = steps.len();
            for i in (0..n).rev() {
                if rng.chance(1, 4) {
                    let t = steps[i]["t"].clone();
                    steps.insert(i + 1, json!({"t": t, "op": if rng.chance(1, 2) { "check_current" } else { "event" }, "site": rng.below(20), "parent": -1}));
                }
            }
        }
        let sched = if sync { Sched::swarm(&mut rng, 300) } else { Sched::op_order(rng.next_u64()) };
        // C06, total-order runs: a quarter of the runs start one more thread after all others have ended. While F32 is
        // open, must-hold runs let every thread leave its spans before it ends; the probe configuration ends thread 1
        // inside a span
        let mut late: Vec<Value> = vec![];
        if prop == "C06" && !sync && (probe_f32 || rng.chance(1, 4)) {
            let free: Vec<usize> = (0..NSLOTS).filter(|s| !has[*s]).collect();
            if probe_f32 || !finding_open("F32") {
                if let Some(&f1) = free.get(1) {
                    steps.push(json!({"t": 1, "op": "new", "slot": f1, "site": rng.below(20), "parent": -1}));
                    steps.push(json!({"t": 1, "op": "enter", "slot": f1}));
                }
            }
            if let Some(&f0) = free.first() {
                late.push(json!({"op": "check_current"}));
                late.push(json!({"op": "new", "slot": f0, "site": rng.below(20), "parent": -1}));
                late.push(json!({"op": "enter", "slot": f0}));
                late.push(json!({"op": "exit", "idx": 0}));
                late.push(json!({"op": "check_current"}));
                late.push(json!({"op": "event", "site": rng.below(20), "parent": -1}));
                late.push(json!({"op": "drop", "slot": f0}));
            }
        }
        let leave_entered = !late.is_empty() && (probe_f32 || !finding_open("F32"));
        json!({
            "engine": "registry", "prop": g.prop, "mode": g.mode,
            "cfg": {"threads": nthreads, "home": home, "f10_guard": f10_guard, "leave_entered": leave_entered},
            "pre": pre, "steps": steps, "late": late,
            "sched": serde_json::to_value(&sched).unwrap(),
        })
    }

    fn classify_known(&self, plan: &Value, res: &RunResult) -> Option<String> {
        let foreign_ops = plan["steps"].as_array().map_or(false, |a| a.iter().any(|s| s["under"].is_string()));
        if plan["mode"] == "probe:F2" && finding_open("F2") && foreign_ops && res.detail.contains("[F2-signature]") {
            return Some("F2 Registry::exit / Clear release references through the thread's current default instead of the span's own collector".into());
        }
        if plan["mode"] == "probe:F32" && finding_open("F32") && res.detail.contains("[F32-signature]") {
            return Some("F32 a thread that ends while still inside a span leaves its span stack in the registry's per-thread storage; a thread started afterwards is handed that storage and, once it has entered and left a span of its own, sees the dead thread's span as its current span (parent of its new spans, scope of its events)".into());
        }
        if finding_open("F10") && res.detail.contains("[F10-signature]") {
            return Some("F10 exit that takes the count to zero under a scoped default loses the parent's release".into());
        }
        None
    }

    fn execute(&self, plan: &Value) -> RunResult {
        let sched = plan_sched(plan);
        let prop = plan["prop"].as_str().unwrap_or("").to_string();
        let nthreads = plan["cfg"]["threads"].as_u64().unwrap_or(1).max(1) as usize;
        let home_scoped = plan["cfg"]["home"].as_str().unwrap_or("scoped") == "scoped";
        let steps: Vec<Value> = plan["steps"].as_array().cloned().unwrap_or_default();
        let pre: Vec<Value> = plan["pre"].as_array().cloned().unwrap_or_default();
        let late: Vec<Value> = plan["late"].as_array().cloned().unwrap_or_default();
        let leave_entered = plan["cfg"]["leave_entered"].as_bool().unwrap_or(false);
        std::panic::set_hook(Box::new(|_| {}));
        let sync = sched.sync;
        let body = move || {
            let a = build_stack(0);
            let b = build_stack(1);
            *WORLD.lock().unwrap() = Some(World { slots: (0..NSLOTS).map(|_| None).collect(), traces: (0..4).map(|_| None).collect(), next_handle: 0, stacks: vec![a.clone(), b] });
            let _g = if home_scoped {
                Some(dispatch::set_default(&a))
            } else {
                let _ = dispatch::set_global_default(a.clone());
                None
            };
            let mut tc = ThreadCtx { entered: vec![] };
            for (i, s) in pre.iter().enumerate() {
                exec_step(100_000 + i, 0, s, &mut tc);
            }
            let indexed: Vec<(usize, usize, Value)> = steps.iter().enumerate().map(|(gi, s)| (gi, (s["t"].as_u64().unwrap_or(0) as usize) % nthreads, s.clone())).collect();
            TURN.store(0, Ordering::SeqCst);
            let mut tids = vec![];
            // in sync mode the main thread only sets up and tears down; workers are threads 1..=n
            let first_worker = if sync { 0 } else { 1 };
            for t in first_worker..nthreads {
                let mine: Vec<(usize, Value)> = indexed.iter().filter(|x| x.1 == t).map(|x| (x.0, x.2.clone())).collect();
                if sync || t > 0 {
                    tids.push(detsim::spawn(&format!("t{t}"), move || thread_body(t + if sync { 1 } else { 0 }, mine, sync, home_scoped, leave_entered)));
                }
            }
            if !sync {
                let mine: Vec<(usize, Value)> = indexed.iter().filter(|x| x.1 == 0).map(|x| (x.0, x.2.clone())).collect();
                let mut tc0 = ThreadCtx { entered: vec![] };
                for (gi, s) in mine {
                    detsim::block_until("turn", None, || TURN.load(Ordering::SeqCst) == gi);
                    exec_step(gi, 0, &s, &mut tc0);
                    TURN.store(gi + 1, Ordering::SeqCst);
                    detsim::progress();
                }
                let mut n = 0;
                while !tc0.entered.is_empty() {
                    let s = json!({"op": "exit", "idx": tc0.entered.len() - 1});
                    exec_step(1_000_000 + n, 0, &s, &mut tc0);
                    n += 1;
                }
            }
            for id in tids {
                detsim::join(id);
            }
            // thread-start effect: a thread that begins only now, after the others have ended (it is handed the per-thread
            // storage of one of them); its current span, parents and scopes are its own
            if !late.is_empty() {
                let late2: Vec<(usize, Value)> = late.iter().enumerate().map(|(i, s)| (400_000 + i, s.clone())).collect();
                fault("thread_started_after_others_ended");
                let id = detsim::spawn("late", move || {
                    let _g = if home_scoped {
                        let a = WORLD.lock().unwrap().as_ref().unwrap().stacks[0].clone();
                        Some(dispatch::set_default(&a))
                    } else {
                        None
                    };
                    let mut tcl = ThreadCtx { entered: vec![] };
                    for (gi, s) in late2 {
                        exec_step(gi, LATE_T, &s, &mut tcl);
                    }
                    let mut n = 0;
                    while !tcl.entered.is_empty() {
                        let s = json!({"op": "exit", "idx": tcl.entered.len() - 1});
                        exec_step(450_000 + n, LATE_T, &s, &mut tcl);
                        n += 1;
                    }
                });
                detsim::join(id);
            }
            // tear-down on the main thread: drop every remaining trace and handle (recorded)
            let mut n = 0;
            for tr in 0..4 {
                exec_step(2_000_000 + n, 0, &json!({"op": "trace_drop", "tr": tr}), &mut tc);
                n += 1;
            }
            for slot in 0..NSLOTS {
                exec_step(2_000_000 + n, 0, &json!({"op": "drop", "slot": slot}), &mut tc);
                n += 1;
            }
            // visibility after close: every id the run ever saw must now be gone
            let ids: Vec<u64> = reclayer::LLOG.lock().unwrap().iter().filter(|r| r.stack == 0 && r.layer == 0 && r.kind == "on_new_span").map(|r| r.id).collect();
            if let Some(reg) = a.downcast_ref::<Registry>() {
                for id in ids {
                    if reg.span(&Id::from_u64(id)).is_some() {
                        STILL_VISIBLE.lock().unwrap().push(id);
                    }
                }
            }
        };
        let prop2 = prop.clone();
        let finish = move || {
            let hist = std::mem::take(&mut *HIST.lock().unwrap());
            let log = reclayer::take_llog();
            oracle(&prop2, sync, &hist, &log);
        };
        simulate(&plan.to_string(), &sched, None, body, finish)
    }
}

static STILL_VISIBLE: Mutex<Vec<u64>> = Mutex::new(Vec::new());

#[derive(Default, Clone, Debug)]
struct MSpan {
    id: u64,
    parent: u64, // uid
    handles: i64,
    entered: BTreeMap<usize, i64>,
    children_open: i64,
    closed: bool,
    created_stamp: u64,
}

fn closable(s: &MSpan) -> bool {
    !s.closed && s.handles == 0 && s.children_open == 0 && s.entered.values().all(|c| *c == 0)
}

/// A4 registry model over the recorded history.
fn oracle(prop: &str, sync: bool, hist: &[H], log: &[LRec]) {
    let mut hist: Vec<H> = hist.to_vec();
    hist.sort_by_key(|h| h.inv);
    // a panic inside an operation is a violation by itself (e.g. "tried to drop a ref to ..., but no such span exists")
    for h in &hist {
        if !h.panicked.is_empty() {
            let sig = if h.foreign || hist.iter().any(|x| x.foreign && x.inv < h.inv) { " [F2-signature]" } else { "" };
            violation("panic", format!("op {} ({}) on t{} panicked: {}{sig}", h.gi, h.op, h.t, h.panicked));
            return;
        }
    }
    let any_foreign_before = |stamp: u64| hist.iter().any(|x| x.foreign && x.inv < stamp);
    let l0: Vec<&LRec> = log.iter().filter(|r| r.stack == 0 && r.layer == 0).collect();
    let l1: Vec<&LRec> = log.iter().filter(|r| r.stack == 0 && r.layer == 1).collect();
    // layers must agree on the lifecycle sequence (ids + kinds), inner (layer 0) first per occurrence
    {
        let k0: Vec<(&str, u64, usize)> = l0.iter().filter(|r| matches!(r.kind, "on_new_span" | "on_close" | "on_enter" | "on_exit")).map(|r| (r.kind, r.id, r.thread)).collect();
        let k1: Vec<(&str, u64, usize)> = l1.iter().filter(|r| matches!(r.kind, "on_new_span" | "on_close" | "on_enter" | "on_exit")).map(|r| (r.kind, r.id, r.thread)).collect();
        let mut a = k0.clone();
        let mut b = k1.clone();
        a.sort();
        b.sort();
        if a != b {
            let sig = if any_foreign_before(u64::MAX) { " [F2-signature]" } else { "" };
            violation("layers-disagree", format!("the two recording layers saw different lifecycle notifications ({} vs {}){sig}", k0.len(), k1.len()));
            return;
        }
    }
    // per layer: once a span has been reported closed nothing more is said about it (its id may be issued again later,
    // by on_new_span), and while it is being entered or left its data is there
    for layer in 0..2usize {
        let mut closed: std::collections::HashSet<u64> = Default::default();
        let mut recs: Vec<&LRec> = log.iter().filter(|r| r.stack == 0 && r.layer == layer).collect();
        recs.sort_by_key(|r| r.stamp);
        for r in recs {
            match r.kind {
                "on_new_span" => {
                    closed.remove(&r.id);
                }
                "on_close" => {
                    closed.insert(r.id);
                }
                "on_enter" | "on_exit" | "on_record" => {
                    if closed.contains(&r.id) || ((r.kind == "on_enter" || r.kind == "on_exit") && !r.flag) {
                        let sig = if any_foreign_before(u64::MAX) { " [F2-signature]" } else { "" };
                        violation("callback-after-close", format!("layer {layer} received {} for span id {} on t{} after the span had been reported closed to it (span data present: {}){sig}", r.kind, r.id, r.thread, r.flag));
                        return;
                    }
                }
                _ => {}
            }
        }
    }
    if let Some(r) = log.iter().find(|r| r.kind == "work_leak") {
        violation("reentrant-span-not-closed", format!("inside on_close of span id {} the layer created, entered, left and dropped a span (id {}); it is still stored afterwards", r.id2, r.id));
        return;
    }
    // spans by uid from layer 0's on_new_span
    let mut spans: BTreeMap<u64, MSpan> = BTreeMap::new();
    let mut id_uid_at: Vec<(u64, u64, u64)> = vec![]; // (id, uid, created stamp)
    for r in l0.iter().filter(|r| r.kind == "on_new_span") {
        if r.val >= 500_000_000 {
            continue; // churn spans are not modelled
        }
        id_uid_at.push((r.id, r.val, r.stamp));
    }
    let uid_of = |id: u64, at: u64| -> u64 { id_uid_at.iter().filter(|x| x.0 == id && x.2 <= at).max_by_key(|x| x.2).map(|x| x.1).unwrap_or(0) };
    let closes: Vec<(u64, u64)> = l0.iter().filter(|r| r.kind == "on_close").map(|r| (uid_of(r.id, r.stamp), r.stamp)).filter(|x| x.0 != 0).collect();
    // close-twice
    {
        let mut seen = std::collections::HashSet::new();
        for (u, _) in &closes {
            if !seen.insert(*u) {
                let sig = if any_foreign_before(u64::MAX) { " [F2-signature]" } else { "" };
                violation("close-twice", format!("span uid {u} was reported closed more than once{sig}"));
                return;
            }
        }
    }
    // data readable inside on_close, serial round trip
    for r in log.iter().filter(|r| r.stack == 0 && r.kind == "on_close") {
        let u = uid_of(r.id, r.stamp);
        if u == 0 {
            continue;
        }
        if !r.flag {
            violation("data-unreadable-in-on-close", format!("ctx.span({}) was None inside on_close (layer {})", r.id, r.layer));
            return;
        }
        let born = log.iter().filter(|x| x.stack == 0 && x.layer == r.layer && x.kind == "on_new_span" && x.id == r.id && x.stamp < r.stamp).max_by_key(|x| x.stamp);
        if let Some(b) = born {
            if b.serial != r.serial {
                violation("stale-data-after-reuse", format!("layer {} stored serial {} at creation of span {} but read back {} at close", r.layer, b.serial, r.id, r.serial));
                return;
            }
        }
    }
    // duplicate live ids: an id may be handed out again only after its previous holder closed
    {
        let mut events: Vec<(u64, u64, bool)> = vec![]; // (stamp, id, is_new)
        for r in l0.iter() {
            if r.kind == "on_new_span" {
                events.push((r.stamp, r.id, true));
            } else if r.kind == "on_close" {
                events.push((r.stamp, r.id, false));
            }
        }
        events.sort();
        let mut live = std::collections::HashSet::new();
        for (_, id, is_new) in events {
            if is_new {
                if !live.insert(id) {
                    violation("duplicate-live-id", format!("id {id} handed out while a live span still has it"));
                    return;
                }
            } else {
                live.remove(&id);
            }
        }
    }
    let mut thread_stack: HashMap<usize, Vec<u64>> = HashMap::new();
    let mut handle_owner: HashMap<u64, u64> = HashMap::new(); // handle -> uid
    let mut armed: HashMap<u64, Vec<u64>> = HashMap::new(); // uid of the releasing span -> handles dropped in its on_close
    let mut nested_ctx = false;
    let mut ooo = false;
    let mut closed_by_exit_or_cascade = false;
    let mut expected_close_order: Vec<u64> = vec![];
    let mut close_cursor = 0usize; // op mode: closes consumed so far (in stamp order)
    let mut closes_sorted = closes.clone();
    closes_sorted.sort_by_key(|c| c.1);

    let chain_of = |spans: &BTreeMap<u64, MSpan>, uid: u64| -> Vec<u64> {
        let mut v = vec![];
        let mut u = uid;
        while u != 0 {
            match spans.get(&u) {
                Some(s) => {
                    v.push(s.id);
                    u = s.parent;
                }
                None => break,
            }
        }
        v
    };

    let t1_end = hist.iter().filter(|h| h.t == 1).map(|h| h.ret).max().unwrap_or(u64::MAX);
    for h in &hist {
        if !h.applied {
            continue;
        }
        let t = h.t;
        // F32's signature: the late thread's view diverges while thread 1 has ended inside a span
        // (any thread whose first use of the registry comes after thread 1 has ended can be handed its storage: the
        // late thread, but also the main thread if it had not entered anything before)
        // and the storage only changes hands in `Registry::enter` (`get_or_default`): a thread that has not entered
        // anything since must still see no current span, finding or no finding
        let entered_since = hist.iter().any(|e| e.applied && e.t == t && e.op == "enter" && e.inv > t1_end && e.inv <= h.inv);
        set_violation_suffix(if t != 1 && h.inv > t1_end && entered_since && thread_stack.get(&1).map_or(false, |v| !v.is_empty()) { " [F32-signature]" } else { "" });
        let cur_uid = thread_stack.get(&t).and_then(|v| v.last().copied()).unwrap_or(0);
        let cur_id = spans.get(&cur_uid).map(|s| s.id).unwrap_or(0);
        let mut became: Vec<u64> = vec![]; // spans whose closability may have changed
        match h.op.as_str() {
            "new" => {
                let mut parent = match h.parent_kind {
                    -2 => 0,
                    -1 => cur_uid,
                    _ => h.uid2,
                };
                if prop != "C06" {
                    // C05 is about reference counting, not about which parent is chosen (that is C06, where
                    // re-entry is excluded): take the parent the registry stored
                    if let Some(r) = l0.iter().find(|r| r.kind == "on_new_span" && r.val == h.uid) {
                        parent = if r.id2 == 0 { 0 } else { uid_of(r.id2, r.stamp) };
                    }
                }
                if h.parent_kind == -1 && thread_stack.get(&t).map_or(0, |v| v.len()) >= 2 {
                    nested_ctx = true;
                }
                if h.id == 0 {
                    violation("span-disabled", format!("span uid {} was not created although nothing filters it", h.uid));
                    return;
                }
                let mut s = MSpan { id: h.id, parent, handles: 1, created_stamp: h.inv, ..Default::default() };
                s.closed = false;
                if parent != 0 {
                    if let Some(p) = spans.get_mut(&parent) {
                        p.children_open += 1;
                    }
                }
                spans.insert(h.uid, s);
                handle_owner.insert(h.handle, h.uid);
                // C06 clauses on the creation record
                if prop == "C06" {
                    for r in log.iter().filter(|r| r.stack == 0 && r.kind == "on_new_span" && r.val == h.uid) {
                        let pid = spans.get(&parent).map(|p| p.id).unwrap_or(0);
                        if r.id2 != pid {
                            violation("wrong-parent", format!("span uid {} (parent kind {}) was stored with parent id {} but the model says {} (layer {})", h.uid, h.parent_kind, r.id2, pid, r.layer));
                            return;
                        }
                        let want = chain_of(&spans, h.uid);
                        let mut rev = want.clone();
                        rev.reverse();
                        if r.chain != want || r.chain_root != rev {
                            violation("wrong-scope", format!("scope of span uid {} is {:?} / from_root {:?}, expected {:?} (layer {})", h.uid, r.chain, r.chain_root, want, r.layer));
                            return;
                        }
                        if r.cur != cur_id {
                            violation("wrong-current", format!("lookup_current inside on_new_span on t{t} gave id {} but the thread's current span is id {}", r.cur, cur_id));
                            return;
                        }
                    }
                }
            }
            "clone" | "current" | "trace_capture" => {
                if h.op != "clone" && prop == "C06" {
                    if h.id != cur_id {
                        violation("wrong-current", format!("{} on t{t} saw id {} but the thread's current span is id {}", if h.op == "current" { "Span::current()" } else { "SpanTrace::capture()" }, h.id, cur_id));
                        return;
                    }
                }
                let uid = if h.op == "clone" { h.uid } else { cur_uid_or(h.uid, cur_uid, prop) };
                if uid != 0 {
                    if let Some(s) = spans.get_mut(&uid) {
                        s.handles += 1;
                    }
                    handle_owner.insert(h.handle, uid);
                }
            }
            "drop" | "trace_drop" => {
                if let Some(uid) = handle_owner.remove(&h.handle) {
                    if let Some(s) = spans.get_mut(&uid) {
                        s.handles -= 1;
                    }
                    became.push(uid);
                }
            }
            "arm" => armed.entry(h.uid2).or_default().push(h.handle),
            "enter" => {
                if let Some(s) = spans.get_mut(&h.uid) {
                    *s.entered.entry(t).or_insert(0) += 1;
                }
                let st = thread_stack.entry(t).or_default();
                if !st.is_empty() && hist.iter().any(|x| x.op == "enter" && x.uid == h.uid && x.t != t && x.inv < h.inv) {
                    ooo = true;
                }
                st.push(h.uid);
            }
            "exit" => {
                if let Some(s) = spans.get_mut(&h.uid) {
                    *s.entered.entry(t).or_insert(0) -= 1;
                }
                let st = thread_stack.entry(t).or_default();
                if let Some(pos) = st.iter().rposition(|u| *u == h.uid) {
                    if pos + 1 != st.len() {
                        ooo = true;
                    }
                    st.remove(pos);
                }
                if prop == "C06" {
                    // inside on_exit the span has been exited already: the layers see the thread's new current span
                    // (threads that hold some span entered twice are outside the 'current' clause)
                    let mut d = st.clone();
                    d.sort();
                    d.dedup();
                    if d.len() == st.len() && !st.contains(&h.uid) {
                        let new_cur = st.last().and_then(|u| spans.get(u)).map(|s| s.id).unwrap_or(0);
                        for r in log.iter().filter(|r| r.stack == 0 && r.kind == "on_exit" && r.id == h.id && r.thread == t && r.stamp > h.inv && r.stamp < h.ret) {
                            if r.cur != new_cur {
                                violation("wrong-current", format!("lookup_current inside on_exit of span id {} on t{t} (layer {}) gave id {} but the thread's current span is id {}", h.id, r.layer, r.cur, new_cur));
                                return;
                            }
                        }
                    }
                }
                became.push(h.uid);
            }
            "check_current" => {
                if prop == "C06" && h.cur_id != cur_id {
                    violation("wrong-current", format!("Span::current() on t{t} is id {} but the most recently entered, not yet exited span is id {} (uid {})", h.cur_id, cur_id, cur_uid));
                    return;
                }
            }
            "event" => {
                if prop == "C06" {
                    let want_uid = match h.parent_kind {
                        -2 => 0,
                        -1 => cur_uid,
                        _ => h.uid2,
                    };
                    if h.parent_kind == -1 && thread_stack.get(&t).map_or(0, |v| v.len()) >= 2 {
                        nested_ctx = true;
                    }
                    let want_id = spans.get(&want_uid).map(|s| s.id).unwrap_or(0);
                    let recs: Vec<&LRec> = log.iter().filter(|r| r.stack == 0 && r.kind == "on_event" && r.val == h.uid).collect();
                    if recs.len() != 2 {
                        violation("event-count", format!("event uid {} was seen {} times by the two layers", h.uid, recs.len()));
                        return;
                    }
                    for r in recs {
                        if r.evspan != want_id {
                            violation("wrong-parent", format!("event uid {} (parent kind {}) attributed to span id {} but the model says {}", h.uid, h.parent_kind, r.evspan, want_id));
                            return;
                        }
                        let want = chain_of(&spans, want_uid);
                        let mut rev = want.clone();
                        rev.reverse();
                        if r.chain != want || r.chain_root != rev {
                            violation("wrong-scope", format!("event uid {} scope {:?} / from_root {:?}, expected {:?}", h.uid, r.chain, r.chain_root, want));
                            return;
                        }
                        if r.cur != cur_id || r.id2 != cur_id {
                            violation("wrong-current", format!("inside on_event on t{t}: lookup_current={} current_span={} but the model says {}", r.cur, r.id2, cur_id));
                            return;
                        }
                    }
                }
            }
            "trace_walk" => {
                if prop == "C06" {
                    let want: Vec<u64> = {
                        let mut v = vec![];
                        let mut u = h.uid;
                        while u != 0 {
                            v.push(u);
                            u = spans.get(&u).map(|s| s.parent).unwrap_or(0);
                        }
                        v
                    };
                    if h.trace != want {
                        violation("wrong-trace", format!("SpanTrace captured at span uid {} walks {:?} but the ancestor chain is {:?}", h.uid, h.trace, want));
                        return;
                    }
                }
            }
            _ => {}
        }
        // cascade: compute the closes this op must have caused (op mode) / must eventually cause
        // a stack of (span, release): `release` = this entry is the release of one child's reference on the span,
        // which happens when the child's slot is cleared - after every layer's on_close for the child, and so after
        // whatever those callbacks closed re-entrantly
        // (kind 0: see whether the span can close; 1: first release a child's reference on it; 2: first drop one of
        // its handles - each takes effect when its turn comes, not when it is queued)
        let mut queue: Vec<(u64, u8)> = became.iter().map(|u| (*u, 0)).collect();
        let mut caused: Vec<u64> = vec![];
        while let Some((u, kind)) = queue.pop() {
            if let Some(p) = spans.get_mut(&u) {
                match kind {
                    1 => p.children_open -= 1,
                    2 => p.handles -= 1,
                    _ => {}
                }
            }
            let (can, parent) = match spans.get(&u) {
                Some(s) => (closable(s), s.parent),
                None => (false, 0),
            };
            if can {
                spans.get_mut(&u).unwrap().closed = true;
                caused.push(u);
                if h.op == "exit" || !became.contains(&u) {
                    closed_by_exit_or_cascade = true;
                }
                if parent != 0 {
                    queue.push((parent, 1));
                }
                // handles a layer releases inside this span's on_close: their spans close (if they can) nested in
                // it, before this span's parent is released
                // (the queue is a stack: pushed in reverse so that the first handle dropped closes first, with its
                // whole cascade, before the next one is dropped)
                for hd in armed.remove(&u).unwrap_or_default().into_iter().rev() {
                    if let Some(v) = handle_owner.remove(&hd) {
                        queue.push((v, 2));
                    }
                }
            }
        }
        expected_close_order.extend(caused.iter().copied());
        if !sync {
            // exact: the closes logged during this op are exactly `caused`, children first
            let got: Vec<u64> = closes_sorted.iter().filter(|c| c.1 > h.inv && c.1 < h.ret).map(|c| c.0).collect();
            close_cursor += got.len();
            if got != caused {
                let f10 = h.op == "exit" && caused.len() > got.len() && got.first() == caused.first();
                let sig = if h.foreign || any_foreign_before(h.inv) {
                    " [F2-signature]"
                } else if f10 {
                    " [F10-signature]"
                } else {
                    ""
                };
                let class = if got.len() < caused.len() && caused.starts_with(&got) {
                    "close-missing"
                } else if got.iter().any(|g| !caused.contains(g)) {
                    "close-early"
                } else {
                    "close-order"
                };
                violation(class, format!("op {} ({} on t{}, span uid {}): the model says spans {:?} close here (children first) but the layers were told {:?}{sig}", h.gi, h.op, h.t, h.uid, caused, got));
                return;
            }
        }
    }
    if sync {
        // interval rules
        for (u, c) in &closes {
            // every handle of u dropped (invoked) before c; every exit invoked before c; children closed before c
            let hs: Vec<&H> = hist.iter().filter(|h| h.applied && h.handle != 0 && matches!(h.op.as_str(), "new" | "clone" | "current" | "trace_capture") && (h.uid == *u)).collect();
            for hn in hs {
                let dropped = hist.iter().find(|d| d.applied && matches!(d.op.as_str(), "drop" | "trace_drop") && d.handle == hn.handle);
                match dropped {
                    Some(d) if d.inv < *c => {}
                    _ => {
                        violation("close-early", format!("span uid {u} was reported closed at stamp {c} while handle {} had not been dropped", hn.handle));
                        return;
                    }
                }
            }
            let enters = hist.iter().filter(|h| h.applied && h.op == "enter" && h.uid == *u && h.inv < *c).count();
            let exits = hist.iter().filter(|h| h.applied && h.op == "exit" && h.uid == *u && h.inv < *c).count();
            if exits < enters {
                violation("close-early", format!("span uid {u} was reported closed while still entered ({} enters, {} exits invoked)", enters, exits));
                return;
            }
            for (cu, cs) in spans.iter().filter(|(_, s)| s.parent == *u) {
                let cc = closes.iter().find(|x| x.0 == *cu).map(|x| x.1);
                match cc {
                    Some(x) if x < *c => {}
                    _ => {
                        let _ = cs;
                        violation("parent-before-child", format!("span uid {u} closed before its child uid {cu}"));
                        return;
                    }
                }
            }
        }
    }
    // quiescence: everything the model closed must have been reported, and nothing else
    for u in &expected_close_order {
        if !closes.iter().any(|c| c.0 == *u) {
            let sig = if any_foreign_before(u64::MAX) { " [F2-signature]" } else { "" };
            violation("close-missing", format!("span uid {u} has no handle, is not entered and has no open child, but was never reported closed{sig}"));
            return;
        }
    }
    for (u, _) in &closes {
        if !expected_close_order.contains(u) {
            violation("close-early", format!("span uid {u} was reported closed but the model still has references to it"));
            return;
        }
    }
    let still = std::mem::take(&mut *STILL_VISIBLE.lock().unwrap());
    for id in still {
        let u = uid_of(id, u64::MAX);
        if u != 0 && closes.iter().any(|c| c.0 == u) {
            violation("visible-after-close", format!("span id {id} (uid {u}) is still found by LookupSpan::span after it was reported closed"));
            return;
        }
    }
    let _ = close_cursor;
    match prop {
        "C05" => {
            if closed_by_exit_or_cascade && spans.len() >= 3 {
                nontrivial();
            }
        }
        _ => {
            if nested_ctx && ooo {
                nontrivial();
            }
        }
    }
}

fn cur_uid_or(recorded: u64, model_cur: u64, prop: &str) -> u64 {
    // Span::current()/capture hold a handle on whatever the registry said is current; for C05 the
    // recorded identity is used (the 'current' clause belongs to C06)
    if prop == "C06" {
        model_cur
    } else {
        recorded
    }
}
