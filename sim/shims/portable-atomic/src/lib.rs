//! Shim for `portable-atomic`: same API subset, std atomics inside, and a scheduler yield point
//! *before* every operation (never after), so the simulator decides the order of atomic operations.
pub use core::sync::atomic::{compiler_fence, fence, Ordering};
use core::sync::atomic as std_atomic;

pub mod hint {
    pub use core::hint::spin_loop;
}

macro_rules! int_atomic {
    ($name:ident, $std:ident, $t:ty, $tag:literal) => {
        #[repr(transparent)]
        pub struct $name(std_atomic::$std);
        impl $name {
            #[inline]
            pub const fn new(v: $t) -> Self { Self(std_atomic::$std::new(v)) }
            #[inline]
            pub fn get_mut(&mut self) -> &mut $t { self.0.get_mut() }
            #[inline]
            pub fn into_inner(self) -> $t { self.0.into_inner() }
            #[inline]
            pub fn load(&self, o: Ordering) -> $t { detsim::yield_point(concat!("atomic:", $tag, ":load")); self.0.load(o) }
            #[inline]
            pub fn store(&self, v: $t, o: Ordering) { detsim::yield_point(concat!("atomic:", $tag, ":store")); self.0.store(v, o); detsim::progress(); }
            #[inline]
            pub fn swap(&self, v: $t, o: Ordering) -> $t { detsim::yield_point(concat!("atomic:", $tag, ":swap")); let r = self.0.swap(v, o); detsim::progress(); r }
            #[inline]
            pub fn compare_exchange(&self, c: $t, n: $t, s: Ordering, f: Ordering) -> Result<$t, $t> {
                detsim::yield_point(concat!("atomic:", $tag, ":cas"));
                let r = self.0.compare_exchange(c, n, s, f); detsim::progress(); r
            }
            #[inline]
            pub fn compare_exchange_weak(&self, c: $t, n: $t, s: Ordering, f: Ordering) -> Result<$t, $t> {
                // no spurious failures in the simulation
                self.compare_exchange(c, n, s, f)
            }
            #[inline]
            pub fn fetch_update<F: FnMut($t) -> Option<$t>>(&self, s: Ordering, f: Ordering, mut g: F) -> Result<$t, $t> {
                let mut prev = self.load(f);
                while let Some(next) = g(prev) {
                    match self.compare_exchange(prev, next, s, f) {
                        Ok(x) => return Ok(x),
                        Err(p) => prev = p,
                    }
                }
                Err(prev)
            }
            #[inline]
            pub fn as_ptr(&self) -> *mut $t { self.0.as_ptr() }
        }
        impl Default for $name { fn default() -> Self { Self::new(Default::default()) } }
        impl From<$t> for $name { fn from(v: $t) -> Self { Self::new(v) } }
        impl core::fmt::Debug for $name {
            fn fmt(&self, f: &mut core::fmt::Formatter<'_>) -> core::fmt::Result {
                // Debug must not be a scheduling point
                core::fmt::Debug::fmt(&self.0, f)
            }
        }
    };
}

macro_rules! int_arith {
    ($name:ident, $t:ty, $tag:literal) => {
        impl $name {
            #[inline]
            pub fn fetch_add(&self, v: $t, o: Ordering) -> $t { detsim::yield_point(concat!("atomic:", $tag, ":fetch_add")); let r = self.0.fetch_add(v, o); detsim::progress(); r }
            #[inline]
            pub fn fetch_sub(&self, v: $t, o: Ordering) -> $t { detsim::yield_point(concat!("atomic:", $tag, ":fetch_sub")); let r = self.0.fetch_sub(v, o); detsim::progress(); r }
            #[inline]
            pub fn fetch_and(&self, v: $t, o: Ordering) -> $t { detsim::yield_point(concat!("atomic:", $tag, ":fetch_and")); let r = self.0.fetch_and(v, o); detsim::progress(); r }
            #[inline]
            pub fn fetch_or(&self, v: $t, o: Ordering) -> $t { detsim::yield_point(concat!("atomic:", $tag, ":fetch_or")); let r = self.0.fetch_or(v, o); detsim::progress(); r }
            #[inline]
            pub fn fetch_xor(&self, v: $t, o: Ordering) -> $t { detsim::yield_point(concat!("atomic:", $tag, ":fetch_xor")); let r = self.0.fetch_xor(v, o); detsim::progress(); r }
            #[inline]
            pub fn fetch_max(&self, v: $t, o: Ordering) -> $t { detsim::yield_point(concat!("atomic:", $tag, ":fetch_max")); let r = self.0.fetch_max(v, o); detsim::progress(); r }
            #[inline]
            pub fn fetch_min(&self, v: $t, o: Ordering) -> $t { detsim::yield_point(concat!("atomic:", $tag, ":fetch_min")); let r = self.0.fetch_min(v, o); detsim::progress(); r }
            #[inline]
            pub fn add(&self, v: $t, o: Ordering) { self.fetch_add(v, o); }
            #[inline]
            pub fn sub(&self, v: $t, o: Ordering) { self.fetch_sub(v, o); }
        }
    };
}

int_atomic!(AtomicBool, AtomicBool, bool, "bool");
impl AtomicBool {
    #[inline]
    pub fn fetch_and(&self, v: bool, o: Ordering) -> bool { detsim::yield_point("atomic:bool:fetch_and"); let r = self.0.fetch_and(v, o); detsim::progress(); r }
    #[inline]
    pub fn fetch_or(&self, v: bool, o: Ordering) -> bool { detsim::yield_point("atomic:bool:fetch_or"); let r = self.0.fetch_or(v, o); detsim::progress(); r }
    #[inline]
    pub fn fetch_xor(&self, v: bool, o: Ordering) -> bool { detsim::yield_point("atomic:bool:fetch_xor"); let r = self.0.fetch_xor(v, o); detsim::progress(); r }
}
int_atomic!(AtomicU8, AtomicU8, u8, "u8");
int_arith!(AtomicU8, u8, "u8");
int_atomic!(AtomicI8, AtomicI8, i8, "i8");
int_arith!(AtomicI8, i8, "i8");
int_atomic!(AtomicU16, AtomicU16, u16, "u16");
int_arith!(AtomicU16, u16, "u16");
int_atomic!(AtomicI16, AtomicI16, i16, "i16");
int_arith!(AtomicI16, i16, "i16");
int_atomic!(AtomicU32, AtomicU32, u32, "u32");
int_arith!(AtomicU32, u32, "u32");
int_atomic!(AtomicI32, AtomicI32, i32, "i32");
int_arith!(AtomicI32, i32, "i32");
int_atomic!(AtomicU64, AtomicU64, u64, "u64");
int_arith!(AtomicU64, u64, "u64");
int_atomic!(AtomicI64, AtomicI64, i64, "i64");
int_arith!(AtomicI64, i64, "i64");
int_atomic!(AtomicUsize, AtomicUsize, usize, "usize");
int_arith!(AtomicUsize, usize, "usize");
int_atomic!(AtomicIsize, AtomicIsize, isize, "isize");
int_arith!(AtomicIsize, isize, "isize");

#[repr(transparent)]
pub struct AtomicPtr<T>(std_atomic::AtomicPtr<T>);
impl<T> AtomicPtr<T> {
    #[inline]
    pub const fn new(p: *mut T) -> Self { Self(std_atomic::AtomicPtr::new(p)) }
    #[inline]
    pub fn get_mut(&mut self) -> &mut *mut T { self.0.get_mut() }
    #[inline]
    pub fn into_inner(self) -> *mut T { self.0.into_inner() }
    #[inline]
    pub fn load(&self, o: Ordering) -> *mut T { detsim::yield_point("atomic:ptr:load"); self.0.load(o) }
    #[inline]
    pub fn store(&self, p: *mut T, o: Ordering) { detsim::yield_point("atomic:ptr:store"); self.0.store(p, o); detsim::progress(); }
    #[inline]
    pub fn swap(&self, p: *mut T, o: Ordering) -> *mut T { detsim::yield_point("atomic:ptr:swap"); let r = self.0.swap(p, o); detsim::progress(); r }
    #[inline]
    pub fn compare_exchange(&self, c: *mut T, n: *mut T, s: Ordering, f: Ordering) -> Result<*mut T, *mut T> {
        detsim::yield_point("atomic:ptr:cas");
        let r = self.0.compare_exchange(c, n, s, f); detsim::progress(); r
    }
    #[inline]
    pub fn compare_exchange_weak(&self, c: *mut T, n: *mut T, s: Ordering, f: Ordering) -> Result<*mut T, *mut T> {
        self.compare_exchange(c, n, s, f)
    }
}
impl<T> Default for AtomicPtr<T> { fn default() -> Self { Self::new(core::ptr::null_mut()) } }
impl<T> core::fmt::Debug for AtomicPtr<T> {
    fn fmt(&self, f: &mut core::fmt::Formatter<'_>) -> core::fmt::Result { core::fmt::Debug::fmt(&self.0, f) }
}
impl<T> core::fmt::Pointer for AtomicPtr<T> {
    fn fmt(&self, f: &mut core::fmt::Formatter<'_>) -> core::fmt::Result { core::fmt::Pointer::fmt(&self.0.load(Ordering::SeqCst), f) }
}
