#!/usr/bin/env python3
"""Regenerates /verif/MANIFEST.json from the table below (single source of truth)."""
import json, subprocess

CLAIMED = {
 # id: (engine, technique, level text, level note, design ref)
 "C15": ("appender-sim", "deterministic simulation: seeded schedules x fault sequences of the real NonBlocking/Worker/WorkerGuard over a simulated channel, virtual clock and scripted failing writer; queue reference model as oracle",
         "Seeded exploration (many short diverse runs, one fresh process per seed) of producer/worker/guard interleavings at every channel operation, with writer pacing in virtual time, write/flush/EINTR/short-write faults and the guard dropped at a seeded point; every run is checked against the A6 queue model (no loss before the drop, no duplicate, no tear, accept order, exact drop count, writer released, flush after last write, no timeout). Sampling, not proof.",
         "Trusts: the channel shim's fidelity to crossbeam-channel's documented bounded/zero-capacity semantics, the queue model in sim/tsim/src/appender.rs, sequential consistency, the parking_lot feature configuration.", "DESIGN.md 5 C15"),
}

CLAIMED.update({
 "C01": ("core-sim", "deterministic simulation: seeded multi-thread histories (total order of whole operations, one fresh process per seed so every callsite starts unregistered) over the real tracing-core + macros; dispatch and filter reference models as oracle",
         "Seeded exploration of histories {create/drop collector, open/close scope, with_default incl. panics, set_global_default, emit event/span, enabled!, rebuild_interest_cache, flip dynamic filter} on 1-3 threads; every emission must reach exactly the thread's current collector iff that collector's own filter accepts it at that stamp; MAX_LEVEL is checked as an upper bound after every collector change. Sampling, not proof.",
         "Trusts: the dispatch model (A1) and filter model (A2) in sim/tsim/src/core_sim.rs and rec.rs; collectors are self-consistent recording stubs; portable-atomic feature configuration.", "DESIGN.md 5 C01"),
 "C02": ("core-sim", "deterministic simulation: seeded histories (op granularity) and seeded schedules (every tracing-core atomic operation a preemption point) with the one-shot global default placed anywhere in the history; one process per run; dispatch reference model with an interval rule for overlaps",
         "Seeded exploration of scope open/close (guards, with_default, unwinding), set_global_default attempts from any thread and emissions on 1-4 threads, both as total orders of operations and under PCT/random/targeted schedules at atomic-operation granularity; receiver identity of every emission and of get_default is compared with the model; set_global_default must succeed exactly once. Sampling, not proof.",
         "Trusts: the dispatch model (A1); sequential consistency (GLOBAL_DISPATCH is a static mut published by a SeqCst store - weak memory is not explored).", "DESIGN.md 5 C02"),
 "C04": ("core-sim", "deterministic simulation: seeded schedules (PCT, random walk, targeted preemption, run-to-block) of 2-3 racing threads at every atomic operation and at the dispatcher-list lock (hook H1), deadlock detection in the scheduler, quiescence probe phase against the filter model",
         "Seeded exploration of interleavings of first callsite hits, Dispatch::new/drop, set_default, set_global_default and rebuild_interest_cache; no panic/deadlock/hang, exact delivery during the race for collectors installed before the emission, and at quiescence every live collector is offered every registered callsite and receives exactly what its filter accepts. Sampling, not proof.",
         "Trusts: the atomics shim and hook H1 represent every synchronisation point of the registration/dispatch paths; sequential consistency only; <=3 threads.", "DESIGN.md 5 C04"),
})

CLAIMED.update({
 "C05": ("registry-sim", "deterministic simulation: seeded histories and seeded schedules (preemption at every registry ref-count operation via hook H2 and at every tracing-core atomic/lock) over a span forest on the real Registry + Layered; registry reference model (handles + entered + open children) as oracle",
         "Seeded exploration of create/clone/drop/raw enter/exit (any order, handle dropped while entered, parents dropped before children)/Span::current over span forests on 1-3 threads, home default installed as scope or as global default; on_close must be reported by both layers exactly once, exactly in the operation that released the last reference (op granularity) or never before every handle drop / exit / child close was at least invoked (sync granularity), children first, data readable inside on_close, gone afterwards, no stale data after slot reuse, no duplicate live ids. Operations under a foreign default are the separate F2 finding-probe configuration. Sampling, not proof.",
         "Trusts: the registry model (A4) in sim/tsim/src/registry_sim.rs; sharded-slab internals run real code but are scheduled as atomic steps; sequential consistency.", "DESIGN.md 5 C05"),
 "C06": ("registry-sim", "deterministic simulation: seeded multi-thread histories (total order of operations) over the real Registry, Context lookups inside layer callbacks and tracing-error SpanTrace; per-thread stack reference model as oracle",
         "Seeded exploration of enter/exit sequences (out-of-order exits, one span entered on several threads), span/event creation with contextual/explicit/root parents, Span::current and SpanTrace capture/walk while ancestors' handles are dropped; every lookup_current/current_span/stored parent/event_span/scope()/from_root()/SpanTrace walk is compared with the model. Re-entry of an already-entered span on the same thread is not generated (excluded by the property). Sampling, not proof.",
         "Trusts: the per-thread stack model (A4); histories are total orders (no intra-operation preemption for this property).", "DESIGN.md 5 C06"),
})

CLAIMED.update({
 "C03": ("span-sim", "deterministic simulation: seeded programs over the Span API executed as total orders on 1-3 threads with a seeded executor (poll / migrate / cancel / panic) for instrumented futures; the executor unrolls the protocol automaton (A3) into the exact expected collector call sequence",
         "Seeded exploration of programs {new with any parent kind, clone, drop, entered/exit/guard drops in any order, nested in_scope/enter scopes incl. panics, record, follows_from, Span::current, or_current, default switched to another collector or none, instrumented tasks (Instrument, in_current_span, with_collector, tracing-futures) polled 0..n times on any thread and cancelled at any point}; the recording collectors' call log must equal the expected sequence call by call (creating collector, kind, span, thread), the automaton must be balanced at quiescence, disjoint id spaces expose calls routed to the wrong collector, disabled spans cause no calls. Sampling, not proof.",
         "Trusts: the expected-sequence interpreter in sim/tsim/src/span_sim.rs; handles are used by one thread at a time (no intra-operation preemption for this property).", "DESIGN.md 5 C03"),
})

CLAIMED.update({
 "C07": ("stack-sim", "deterministic simulation: seeded configurations (layer trees with global and per-layer filters assembled at run time) x seeded emission histories through the real macros (interest caches, MAX_LEVEL, per-thread FILTERING state in play), one or two stacks on one or two threads; stack delivery reference model (A5) as oracle",
         "Seeded exploration of stacks built from plain layers, global filter layers and per-layer-filtered subtrees (nested, Vec/Option/Box/and_then) with level/Targets/EnvFilter/static-closure/context-closure/and-or-not filters, and histories of spans (create/enter/exit/record/drop), events, enabled! probes and emissions aborted by a panicking field expression; each leaf must receive exactly what its own path filters and the global filters accept, lifecycle notifications go to exactly the recipients of the span, and lookup_current/event_scope inside callbacks show exactly the spans the leaf received. A sixth of the must-hold runs add a recording leaf that emits an event of its own from inside its register_callsite (re-entrancy into the per-thread interest accumulation), as the outermost group under its own per-layer filter. Known-finding triggers (F3, F13, F14, F34: re-entrant leaves anywhere in the tree) run in separate finding-probe configurations. Sampling, not proof.",
         "Trusts: the filter evaluator and delivery model in sim/tsim/src/stack.rs and stack_sim.rs (restricted grammar: target tables by longest string prefix, static closures by site mask, context closures on the visible current span); histories are total orders.", "DESIGN.md 5 C07"),
 "C09": ("wrap-sim", "deterministic simulation: seeded configurations (1-5 recording layers, nested pass-through wrappers, collector wrappers, two base collectors, optional veto) x seeded span/event histories, optionally raced (seeded schedules) by a thread holding a reload wrapper's write lock inside Handle::modify; absolute exactly-once/ordering oracle per operation window",
         "Seeded exploration of wrapper nestings {Box, Some, one-element Vec, reload, and_then with Identity/None/empty-Vec neighbours}, transparent extra groups (None, empty Vec, Identity), the collector wrapped in Box/Arc/Box<Box>, over the Registry or an id-changing collector; per operation every layer must log each lifecycle notification (new span, record, follows-from, event, enter, exit, close, id change) exactly once, inner layers first, with identical arguments; dispatcher registration exactly once per layer; query callbacks (register_callsite, enabled, event_enabled) the same number of times for every layer unless a layer vetoes, in which case nobody is notified. Sampling, not proof.",
         "Trusts: the per-operation expectation table in sim/tsim/src/wrap_sim.rs; query-callback ORDER is not demanded (outer-first by documented design); the schedule dimension covers only the reload wrapper's lock.", "DESIGN.md 5 C09"),
})

CLAIMED.update({
 "C11": ("directive-sim", "deterministic simulation: seeded directive sets x seeded enter/exit/record histories on 1-2 threads (total orders; a quarter of the span-scoped runs as seeded schedules of two threads racing on one EnvFilter), run under four replica collectors in one process (Targets, EnvFilter, EnvFilter re-parsed from its Display, EnvFilter as per-layer filter); differential oracles plus a reference model for the documented directive subset",
         "Seeded exploration of directive strings from the documented grammar (shared prefixes, duplicates/conflicts in any order, bare level/target, names in any case or digits, span names, int/bool field value matchers) with well-nested enter/exit histories over named spans with typed fields (values recorded at creation or later, spans shared between threads); replicas must deliver identically (Display round trip, global vs per-layer, Targets on static strings), would_enable must equal delivery, and deliveries must equal the model (longest prefix wins, last duplicate wins, level raised exactly while a matching span is entered on the thread and for the span itself). A third of the race runs install the EnvFilter as the process-wide default and use field values whose Debug impl creates a span of its own while the filter matches them (re-entrancy under the filter's table locks: no deadlock, same deliveries). Sampling, not proof.",
         "Trusts: the directive model in sim/tsim/src/directive_sim.rs for the generated subset; forms outside it are checked only differentially; spans cared about by a directive's callsite but not matching its values are not judged.", "DESIGN.md 5 C11"),
 "C12": ("reload-sim", "deterministic simulation: seeded histories and seeded schedules (cooperative RwLock shim inside reload, callsite-registry lock hook H1, every interest/MAX_LEVEL atomic a preemption point) of reload/modify (from one thread or overlapping from several) vs emissions on 2-3 threads; interval-rule (register linearizability) oracle against the filter evaluator",
         "Seeded exploration of <=6 reloads between None/level/Targets/EnvFilter/closure values of a reloadable global layer (inner or outer) or per-layer filter, interleaved with <=30 emissions from a callsite pool on the reloading and other threads; an emission is judged by a value whose reload began before the emission ended and was not certainly superseded before the emission began (exactly value k when it lies between reload k's return and reload k+1's start); MAX_LEVEL after return is at least the new value's need (exact for level values); a handle whose collector is gone returns a 'dropped' error. Sampling, not proof.",
         "Trusts: the filter evaluator; lock poisoning cannot occur under the parking_lot seam and is not explored; sequential consistency.", "DESIGN.md 5 C12"),
})

CLAIMED.update({
 "C13": ("fmt-sim", "deterministic simulation: seeded formatter/option/writer-expression configurations x 1-8 emitting threads scheduled at the recording sinks' factory and write calls, with aborted formatting (panicking Debug) and failing Tee branches as faults; writer-expression denotation (A9) and per-format record oracle",
         "Seeded exploration of the real fmt layer (full/compact/pretty/json x target/level/thread/file/line/ansi/timer/span-event options, json flatten/current_span/span_list) over writer expressions of depth <=3 (with_max_level, with_min_level, with_filter, and, or_else) on up to 5 recording sinks; per event and per configured span lifecycle point: the factory is asked with that event's metadata, every denoted sink receives exactly one write carrying one whole newline-terminated record (one line for full/compact/json), no other sink receives bytes, the record carries the level, the event's own fields and the spans in scope in nesting order in the form each formatter documents, and nothing from another record (also after a caught panic inside formatting). Sampling, not proof.",
         "Trusts: the denotation and the token-based record parser in sim/tsim/src/fmt_sim.rs; the compact formatter is checked for span fields not names (its documented design); JSON lifecycle records' span list is not judged (explicit-parent events).", "DESIGN.md 5 C13"),
})

CLAIMED.update({
 "C20": ("time-sim", "deterministic simulation of the system clock: hook H3 puts SystemTime::now behind a seam, a seeded simulated clock (monotone traces: day sweeps, every-second boundary windows, sorted random instants incl. pre-1970 and beyond year 9999) drives the real fmt layer with its default timer; independent civil-from-days reference as oracle",
         "Seeded exploration of clock traces: per run a chunk of consecutive days (4 instants/day), an every-second window around a year / leap-day / century / 400-year / epoch / year-1 / year-9999 boundary, or sorted random instants with boundary-hugging sub-second parts; every printed timestamp must equal the independent conversion (exact RFC 3339 text with truncated microseconds inside 0001..9999), and successive records must be non-decreasing. Quick covers about 35 M instants, thorough several hundred million (random day chunks: expected coverage of every day of 0001-9999, not a guaranteed enumeration). Sampling, not proof.",
         "Trusts: the era/day-of-era calendar routine in sim/tsim/src/time_sim.rs (self-checked against a table of known dates at start-up); hook H3 replaces only the clock read, the formatting path is the shipped one.", "DESIGN.md 5 C20"),
})

CLAIMED.update({
 "C16": ("rolling-sim", "deterministic simulation: the appender's clock behind hook H4 driven by a seeded simulated clock (exact boundaries, multi-period jumps, month/year ends, leap days, stand-still, steps back), the exclusive interface as an operation history and the shared MakeWriter interface under seeded schedules (preemption at the next_date load/CAS and at the file lock); rolling reference model (A7) with an independent calendar as oracle",
         "Seeded exploration of rotation kind x prefix/suffix x file limit x interface; after every phase the private directory is read back: each buffer occurs exactly once, whole, in per-thread order, in the file named (by an independent calendar routine) for the period of the rotating write or, for concurrent writers, the file being replaced; a boundary crossing creates exactly one new file however many threads write at that instant; stand-still and steps back create none; with a limit at most that many files remain and the oldest created are the ones removed (data in legitimately pruned files is not counted as lost). Foreign files and directories placed in the log directory beforehand must survive untouched. Sampling, not proof.",
         "Trusts: the rolling model and calendar in sim/tsim/src/rolling_sim.rs; the real file system on a private temp directory (runs with a file limit sleep 12 ms of real time per phase so that creation timestamps are distinguishable; this influences no scheduling choice).", "DESIGN.md 5 C16"),
})

CLAIMED.update({
 "C14": ("json-sim", "deterministic simulation: seeded JSON-formatter configurations x seeded histories of span creation, later record calls, enter/exit and events with hostile strings and numeric extremes on 1-3 threads (a quarter of the runs under seeded schedules with a recording thread racing an emitting thread), aborted formatting as a fault; an independent strict RFC 8259 parser plus a field-value model as oracle",
         "Seeded exploration of flatten_event/current_span/span_list/display options with hostile characters in messages, field names, string values, targets and span names, all numeric types at their extremes, NaN/inf, bools, errors, Debug/Display values, and span fields recorded in 0..n later steps; a fifth of the runs create spans first and swap the JSON layer in through a reload handle afterwards (spans the layer never saw created: first-ever record, possibly two at once, and events inside them); a record call whose value does not panic must not panic; every record must be exactly one line, parse with an independent strict parser (unique keys at every level), carry every event field and span field with the value recorded under the documented type mapping (128-bit integers: digits as number or string), and list the current span's ancestor chain root to leaf. Sampling, not proof.",
         "Trusts: the hand-written parser and the expectation tables in sim/tsim/src/json_sim.rs; under seeded schedules later-recorded fields are judged by an allowed-outcome set (absent or any value recorded on that span).", "DESIGN.md 5 C14"),
})

CLAIMED.update({
 "C18": ("log-sim", "deterministic simulation: seeded multi-thread histories with the two process-global one-shot events (log::set_logger, first dispatcher installation) placed at seeded positions, one fresh process per run, harness built with tracing's `log` feature; dispatch model + record-by-record expectations as oracle",
         "Seeded exploration of both directions. log->tracing: LogTracer (ignore list, max level) installed at a seeded point, collectors with level x target-prefix filters scoped/global on 1-2 threads, log records of all levels with arbitrary targets/messages and present/absent file/line/module: exactly one event iff the thread's current collector accepts the record's own level and target (and the bridge may forward it), with message and normalized target/level/file/line/module equal to the record's. tracing->log: a recording logger with a seeded max level; events and span lifecycle steps before and after the first collector installation anywhere: exactly one log record each with the documented level/target and a text containing message and fields, none afterwards. Level conversion checked exhaustively at start-up. Sampling, not proof.",
         "Trusts: the expectation tables in sim/tsim/src/log_sim.rs (documented level/target map of tracing's log output); histories are total orders.", "DESIGN.md 5 C18"),
})

CLAIMED.update({
 "C17": ("instr-sim", "deterministic simulation: a corpus of twin functions (plain / #[instrument]) generated at build time from a seed and compiled with the real attribute macro; seeded drives with tracked arguments under a recording, absent or filtering collector; async twins polled by a seeded executor (interleaved, migrated between threads, cancelled, panicking); twin-equality and span-protocol oracles",
         "Seeded exploration over a generated corpus (sync / async / async-trait-style boxed futures / methods; by-value, by-reference, destructured, generic and impl-Trait arguments; unit / value / Result / impl Display returns with early return, `?` and panic; name, level, target, parent, skip, fields, ret/err modes and levels): the instrumented twin must return the same value, panic with the same payload, produce the same effect log and clone/drop its arguments the same number of times as the plain twin; each call creates exactly one span with the configured name/level/parent and exactly the non-skipped arguments and extra fields; every body step (each poll) observes that span as current and the executor between polls does not; enter/exit balance and a single close; ret/err events inside the span with the value and level configured. Thorough explores four corpora. Sampling, not proof.",
         "Trusts: the corpus generator (sim/tsim/build.rs) and the expectation tables it emits next to each pair.", "DESIGN.md 5 C17"),
})

NOT_BUILT = {
}

NOT_APPLICABLE = {
 "C08": "pure function of (filter expression, metadata, span context): no schedule, shared state, clock or fault for a simulator to own; enumeration is the right tool and is outside this technique family (DESIGN.md 5 C08)",
 "C10": "pure function of (macro form, values, filter verdict): nothing to schedule or fault; input enumeration is outside this technique family (DESIGN.md 5 C10)",
 "C19": "finite algebra of pure comparison/parsing functions; complete enumeration is the right tool, not simulation (DESIGN.md 5 C19)",
}

ALL = ["C%02d" % i for i in range(1, 21)]

def main():
    hooks = subprocess.run(["git", "-C", "/repo", "log", "--format=%h %s", "--grep=^verif hook"], capture_output=True, text=True).stdout.strip().splitlines()
    checks = []
    for pid in ALL:
        if pid in CLAIMED:
            eng, tech, text, note, ref = CLAIMED[pid]
            checks.append({
                "property_id": pid,
                "quick_cmd": f"./check {pid} --tier quick",
                "thorough_cmd": f"./check {pid} --tier thorough",
                "evidence_file": f"/verif/evidence/{pid}.json",
                "replay_cmd_template": "./check replay {path}",
                "engine": eng,
                "level_claimed": {"category": "exploration", "text": text, "design_ref": ref},
                "level_note": note,
                "technique": tech,
            })
    na = []
    for pid in ALL:
        if pid in CLAIMED:
            continue
        if pid in NOT_APPLICABLE:
            na.append({"property_id": pid, "reason": NOT_APPLICABLE[pid]})
        else:
            na.append({"property_id": pid, "reason": NOT_BUILT.get(pid, "applicable to deterministic simulation (see DESIGN.md 5), but its check is not built yet, so it is not claimed")})
    engines = {}
    for pid, v in CLAIMED.items():
        engines.setdefault(v[0], []).append(pid)
    m = {
        "version": 1,
        "setup_cmd": "cd /verif/sim && CARGO_NET_OFFLINE=true cargo build --release --offline --target-dir target && CARGO_NET_OFFLINE=true cargo build --release --offline --features logfeat --target-dir target-log && CARGO_NET_OFFLINE=true cargo build --release --offline --no-default-features --target-dir target-std",
        "hooks": {
            "guard": "--cfg tokio_rs_tracing_verif (rustc cfg)",
            "enable": "RUSTFLAGS='--cfg tokio_rs_tracing_verif' via /verif/sim/.cargo/config.toml; the harness workspace /verif/sim has path dependencies on /repo/* and [patch]es portable-atomic, portable-atomic-util, parking_lot, crossbeam-channel with simulator shims",
            "baseline_off_cmd": "cd /repo && cargo nextest run --workspace --no-fail-fast --offline --test-threads 8 || cargo test --workspace --no-fail-fast --offline",
            "source_commits": [h.split()[0] for h in hooks],
            "add_only": False,
        },
        "engines": [{"name": k, "path": "/verif/sim/tsim", "serves_properties": sorted(v), "kind_free_text": "deterministic simulation with fault injection: real OS threads under a seeded baton scheduler (detsim), one fresh process per seed"} for k, v in sorted(engines.items())],
        "checks": checks,
        "not_applicable": na,
        "notes": "For C05 C06 C07 C09 C11 C12 C13 C14 each command first runs a shorter pass of total-order runs with tracing-subscriber built with std's poisoning locks (its default configuration; build target-std), then the main run with the cooperative lock seam; a violation in either is reported. Hooks are add-only lines or cfg-selected imports of a drop-in type (H1 RwLock, H7 AtomicUsize, H8 Instant: the code using them is the same source in both configurations); H6 extends the existing check-cfg line in /repo/Cargo.toml. Known findings and fixes: /verif/known_findings.json. Replay: ./check replay <file>.",
    }
    json.dump(m, open("/verif/MANIFEST.json", "w"), indent=1)
    print("wrote MANIFEST.json:", len(checks), "checks,", len(na), "unclaimed")

main()
