//! stack-sim, part 2: C09 — every layer sees every notification exactly once; wrappers are transparent.
//! Unfiltered stacks of 1..5 recording layers, each optionally wrapped (nested) in Box / Some / Vec /
//! reload / and_then / Identity neighbours / None / empty Vec; the collector as a whole optionally in
//! Box or Arc; base collector either the Registry or an id-changing recording collector.
use crate::fw::*;
use crate::rec::{FilterSpec, RecCollect};
use crate::reclayer::{self, LRec, LLOG};
use crate::rec::site_of;
use crate::sites;
use detsim::Rng;
use serde_json::{json, Value};
use std::collections::HashMap;
use std::sync::atomic::{AtomicI64, AtomicU64, Ordering};
use std::sync::{Arc, Mutex};
use tracing::Span;
use tracing_core::dispatch::{self, Dispatch};
use tracing_core::span::{Attributes, Id, Record};
use tracing_core::{Collect, Event, Interest, LevelFilter, Metadata};
use tracing_subscriber::prelude::*;
use tracing_subscriber::subscribe::{Context, Layered, Subscribe};
use tracing_subscriber::Registry;

pub struct WrapEngine;

type BoxS<C> = Box<dyn Subscribe<C> + Send + Sync + 'static>;

#[derive(Default)]
pub struct PCfg {
    veto_enabled_site: AtomicI64,
    veto_event_val: AtomicU64,
}

#[derive(Clone)]
pub struct PlainLayer {
    layer: usize,
    cfg: Arc<PCfg>,
}

struct ValVisitor {
    val: u64,
}
impl tracing_core::field::Visit for ValVisitor {
    fn record_u64(&mut self, field: &tracing_core::field::Field, value: u64) {
        if field.name() == "val" || field.name() == "late" {
            self.val = value;
        }
    }
    fn record_debug(&mut self, _f: &tracing_core::field::Field, _v: &dyn std::fmt::Debug) {}
}

impl PlainLayer {
    fn push(&self, mut r: LRec) {
        r.stamp = detsim::stamp();
        r.thread = detsim::current();
        r.layer = self.layer;
        ev(format!("P{} {} id{} id2 {} v{} s{} f{}", r.layer, r.kind, r.id, r.id2, r.val, r.site, r.flag));
        LLOG.lock().unwrap().push(r);
    }
    fn meta(meta: &Metadata<'_>, kind: &'static str) -> LRec {
        let (site, skind, name) = site_of(meta);
        LRec { kind, site, skind, name, ..Default::default() }
    }
}

impl<C: Collect> Subscribe<C> for PlainLayer {
    fn on_register_dispatch(&self, _c: &Dispatch) {
        self.push(LRec { kind: "on_register_dispatch", ..Default::default() });
    }
    fn register_callsite(&self, metadata: &'static Metadata<'static>) -> Interest {
        self.push(Self::meta(metadata, "register_callsite"));
        if self.cfg.veto_enabled_site.load(Ordering::SeqCst) >= 0 {
            Interest::sometimes()
        } else {
            Interest::always()
        }
    }
    fn enabled(&self, metadata: &Metadata<'_>, _ctx: Context<'_, C>) -> bool {
        let mut r = Self::meta(metadata, "enabled");
        let veto = self.cfg.veto_enabled_site.load(Ordering::SeqCst);
        r.flag = !(veto >= 0 && veto == r.site as i64);
        let f = r.flag;
        self.push(r);
        f
    }
    fn max_level_hint(&self) -> Option<LevelFilter> {
        None
    }
    fn on_new_span(&self, attrs: &Attributes<'_>, id: &Id, _ctx: Context<'_, C>) {
        let mut r = Self::meta(attrs.metadata(), "on_new_span");
        let mut v = ValVisitor { val: 0 };
        attrs.record(&mut v);
        r.val = v.val;
        r.id = id.into_u64();
        self.push(r);
    }
    fn on_record(&self, span: &Id, values: &Record<'_>, _ctx: Context<'_, C>) {
        let mut v = ValVisitor { val: 0 };
        values.record(&mut v);
        self.push(LRec { kind: "on_record", id: span.into_u64(), val: v.val, ..Default::default() });
    }
    fn on_follows_from(&self, span: &Id, follows: &Id, _ctx: Context<'_, C>) {
        self.push(LRec { kind: "on_follows_from", id: span.into_u64(), id2: follows.into_u64(), ..Default::default() });
    }
    fn event_enabled(&self, event: &Event<'_>, _ctx: Context<'_, C>) -> bool {
        let mut r = Self::meta(event.metadata(), "event_enabled");
        let mut v = ValVisitor { val: 0 };
        event.record(&mut v);
        r.val = v.val;
        let veto = self.cfg.veto_event_val.load(Ordering::SeqCst);
        r.flag = !(veto != 0 && veto == v.val);
        let f = r.flag;
        self.push(r);
        f
    }
    fn on_event(&self, event: &Event<'_>, _ctx: Context<'_, C>) {
        let mut r = Self::meta(event.metadata(), "on_event");
        let mut v = ValVisitor { val: 0 };
        event.record(&mut v);
        r.val = v.val;
        self.push(r);
    }
    fn on_enter(&self, id: &Id, _ctx: Context<'_, C>) {
        self.push(LRec { kind: "on_enter", id: id.into_u64(), ..Default::default() });
    }
    fn on_exit(&self, id: &Id, _ctx: Context<'_, C>) {
        self.push(LRec { kind: "on_exit", id: id.into_u64(), ..Default::default() });
    }
    fn on_close(&self, id: Id, _ctx: Context<'_, C>) {
        self.push(LRec { kind: "on_close", id: id.into_u64(), ..Default::default() });
    }
    fn on_id_change(&self, old: &Id, new: &Id, _ctx: Context<'_, C>) {
        self.push(LRec { kind: "on_id_change", id: old.into_u64(), id2: new.into_u64(), ..Default::default() });
    }
}

/// A base collector that hands out a fresh id on every clone_span (so `on_id_change` occurs) and
/// never reports a span closed.
pub struct IdChanging {
    next: AtomicU64,
    log: RecCollect,
}
impl Collect for IdChanging {
    fn register_callsite(&self, m: &'static Metadata<'static>) -> Interest {
        self.log.register_callsite(m)
    }
    fn enabled(&self, m: &Metadata<'_>) -> bool {
        self.log.enabled(m)
    }
    fn new_span(&self, a: &Attributes<'_>) -> Id {
        self.log.new_span(a)
    }
    fn record(&self, s: &Id, v: &Record<'_>) {
        self.log.record(s, v)
    }
    fn record_follows_from(&self, s: &Id, f: &Id) {
        self.log.record_follows_from(s, f)
    }
    fn event(&self, e: &Event<'_>) {
        self.log.event(e)
    }
    fn enter(&self, s: &Id) {
        self.log.enter(s)
    }
    fn exit(&self, s: &Id) {
        self.log.exit(s)
    }
    fn clone_span(&self, id: &Id) -> Id {
        let _ = self.log.clone_span(id);
        Id::from_u64(5_000_000 + self.next.fetch_add(1, Ordering::SeqCst))
    }
    fn try_close(&self, id: Id) -> bool {
        self.log.try_close(id)
    }
    fn current_span(&self) -> tracing_core::span::Current {
        tracing_core::span::Current::none()
    }
    fn on_register_dispatch(&self, d: &Dispatch) {
        self.log.on_register_dispatch(d)
    }
}

/// one closure per reload wrapper in the tree: `modify` with a body of `n` preemption points (it holds the
/// wrapper's write lock meanwhile)
static HANDLES: Mutex<Vec<Arc<dyn Fn(u64) + Send + Sync>>> = Mutex::new(Vec::new());

fn build_plain<C: Collect + Send + Sync + 'static>(v: &Value, cfgs: &HashMap<usize, Arc<PCfg>>) -> BoxS<C> {
    match v["k"].as_str().unwrap_or("") {
        "leaf" => {
            let id = v["id"].as_u64().unwrap_or(0) as usize;
            Box::new(PlainLayer { layer: id, cfg: cfgs.get(&id).cloned().unwrap() })
        }
        "box" => Box::new(build_plain::<C>(&v["c"], cfgs)),
        "some" => Box::new(Some(build_plain::<C>(&v["c"], cfgs))),
        "none" => Box::new(None::<BoxS<C>>),
        "vec" => {
            let cs: Vec<BoxS<C>> = v["cs"].as_array().cloned().unwrap_or_default().iter().map(|c| build_plain::<C>(c, cfgs)).collect();
            Box::new(cs)
        }
        "identity" => Box::new(tracing_subscriber::subscribe::Identity::new()),
        "and_then" => Box::new(build_plain::<C>(&v["a"], cfgs).and_then(build_plain::<C>(&v["b"], cfgs))),
        "reload" => {
            let (l, h) = tracing_subscriber::reload::Subscriber::new(build_plain::<C>(&v["c"], cfgs));
            HANDLES.lock().unwrap().push(Arc::new(move |n: u64| {
                let _ = h.modify(|_inner| {
                    for _ in 0..n {
                        detsim::yield_point("reload:inside-modify");
                    }
                });
            }));
            Box::new(l)
        }
        _ => Box::new(tracing_subscriber::subscribe::Identity::new()),
    }
}

type P1<B> = Layered<BoxS<B>, B>;
type P2<B> = Layered<BoxS<P1<B>>, P1<B>>;
type P3<B> = Layered<BoxS<P2<B>>, P2<B>>;

fn wrap_dispatch<C: Collect + Send + Sync + 'static>(c: C, wrap: &str) -> Dispatch {
    match wrap {
        "box" => Dispatch::new(Box::new(c)),
        "arc" => Dispatch::new(Arc::new(c)),
        "boxbox" => Dispatch::new(Box::new(Box::new(c))),
        _ => Dispatch::new(c),
    }
}

fn make_dispatch<B: Collect + Send + Sync + 'static>(base: B, groups: &[Value], wrap: &str, cfgs: &HashMap<usize, Arc<PCfg>>) -> Dispatch {
    let g0 = groups.get(0).cloned().unwrap_or(json!({"k": "identity"}));
    let c1: P1<B> = base.with(build_plain::<B>(&g0, cfgs));
    if groups.len() <= 1 {
        return wrap_dispatch(c1, wrap);
    }
    let c2: P2<B> = c1.with(build_plain::<P1<B>>(&groups[1], cfgs));
    if groups.len() == 2 {
        return wrap_dispatch(c2, wrap);
    }
    let c3: P3<B> = c2.with(build_plain::<P2<B>>(&groups[2], cfgs));
    wrap_dispatch(c3, wrap)
}

fn leaf_ids(groups: &[Value]) -> Vec<usize> {
    fn go(v: &Value, out: &mut Vec<usize>) {
        match v["k"].as_str().unwrap_or("") {
            "leaf" => out.push(v["id"].as_u64().unwrap_or(0) as usize),
            "box" | "some" | "reload" => go(&v["c"], out),
            "vec" => {
                for c in v["cs"].as_array().cloned().unwrap_or_default() {
                    go(&c, out);
                }
            }
            "and_then" => {
                go(&v["a"], out);
                go(&v["b"], out);
            }
            _ => {}
        }
    }
    let mut out = vec![];
    for g in groups {
        go(g, &mut out);
    }
    out
}

#[derive(Clone, Debug, Default)]
struct H {
    gi: usize,
    op: String,
    inv: u64,
    ret: u64,
    applied: bool,
    uid: u64,
    site: usize,
    id: u64,
    id2: u64,
    closes: bool,
    enabled_handle: bool,
}
static HIST: Mutex<Vec<H>> = Mutex::new(Vec::new());

struct SlotE {
    span: Span,
    uid: u64,
}
const NSLOTS: usize = 8;

/// An absent element: None / empty Vec / Identity, possibly itself inside pass-through wrappers
/// (`Some(None)`, `Box(None)`, `Some(vec![])`, `reload(None)`, ...): still absent.
fn absent(rng: &mut Rng) -> Value {
    let mut v = match rng.below(3) {
        0 => json!({"k": "identity"}),
        1 => json!({"k": "none"}),
        _ => json!({"k": "vec", "cs": []}),
    };
    for _ in 0..2 {
        if rng.chance(1, 3) {
            v = match rng.below(4) {
                0 => json!({"k": "some", "c": v}),
                1 => json!({"k": "box", "c": v}),
                2 => json!({"k": "reload", "c": v}),
                _ => json!({"k": "vec", "cs": [v]}),
            };
        }
    }
    v
}

fn wrap_node(rng: &mut Rng, inner: Value, depth: u32) -> Value {
    if depth >= 3 || rng.chance(2, 5) {
        return inner;
    }
    let w = match rng.below(5) {
        0 => json!({"k": "box", "c": inner}),
        1 => json!({"k": "some", "c": inner}),
        2 => json!({"k": "vec", "cs": [inner]}),
        3 => json!({"k": "reload", "c": inner}),
        _ => {
            // an Identity / None / empty Vec neighbour
            let nb = absent(rng);
            if rng.chance(1, 2) {
                json!({"k": "and_then", "a": inner, "b": nb})
            } else {
                json!({"k": "and_then", "a": nb, "b": inner})
            }
        }
    };
    wrap_node(rng, w, depth + 1)
}

impl Engine for WrapEngine {
    fn name(&self) -> &'static str {
        "wrap-sim"
    }
    fn props(&self) -> &'static [&'static str] {
        &["C09"]
    }
    fn rule(&self, _p: &str) -> String {
        "configuration = 1-5 recording layers in 1-3 top-level groups, each layer wrapped 0-3 times in {Box, Some, one-element Vec, reload, and_then with an Identity/None/empty-Vec neighbour}, extra None/empty-Vec/Identity groups (absent elements may themselves sit inside Some/Box/reload/one-element Vec), the collector as a whole plain/Box/Arc/Box<Box>, base collector Registry or an id-changing recording collector, optional veto (enabled for one callsite, or event_enabled for one event) by one layer; history = spans (new/clone/drop/enter/exit/record/follows_from) and events, in half of the runs that contain a reload wrapper raced (seeded schedules) by a second thread that sits inside Handle::modify holding the wrapper's write lock; a fifth of the runs instead wrap a recording per-layer Filter (nested) in {Box, Arc, Some, reload} and compare every operation's callbacks - the filter's, its layer's, an unfiltered neighbour's - with the same history under the bare filter; non-trivial = at least 2 layers, at least one wrapper, and at least 5 lifecycle notifications (filter runs: a wrapper, >=6 filter callbacks and a veto); distinct = distinct plan digest".into()
    }
    fn components(&self) -> Value {
        json!({"real": ["Layered (Collect and Subscribe impls)", "forwarding impls for Box/Arc<Collect>, Box<dyn Subscribe>, Option, Vec, reload::Subscriber, Identity", "Registry"], "stub": ["recording layers (PlainLayer)", "id-changing base collector"]})
    }
    fn generate(&self, g: &GenCtx) -> Value {
        let mut rng = Rng::new(g.seed);
        // a fifth of the runs check wrappers around a per-layer *filter* (differential twin, see fwrap.rs)
        if rng.chance(1, 5) {
            return crate::fwrap::generate(&mut rng, &g.prop, &g.mode, g.tier == "thorough");
        }
        let nlayers = rng.range(1, 5);
        let ngroups = rng.range(1, 3).min(nlayers);
        // distribute layers over groups in order (inner -> outer)
        let mut groups: Vec<Vec<Value>> = vec![vec![]; ngroups as usize];
        for l in 0..nlayers {
            let gi = (l * ngroups / nlayers) as usize;
            let node = wrap_node(&mut rng, json!({"k": "leaf", "id": l}), 0);
            groups[gi].push(node);
        }
        let mut gvals: Vec<Value> = groups
            .into_iter()
            .map(|ls| {
                let mut it = ls.into_iter();
                let mut acc = it.next().unwrap_or(json!({"k": "identity"}));
                for n in it {
                    acc = if rng.chance(1, 3) { json!({"k": "vec", "cs": [acc, n]}) } else { json!({"k": "and_then", "a": acc, "b": n}) };
                }
                acc
            })
            .collect();
        // transparent extra groups
        if gvals.len() < 3 && rng.chance(1, 3) {
            let extra = absent(&mut rng);
            let pos = rng.below(gvals.len() as u64 + 1) as usize;
            gvals.insert(pos, extra);
        }
        let base = if rng.chance(1, 3) { "rec" } else { "registry" };
        let wrap = *rng.pick(&["", "", "box", "arc", "boxbox"]);
        let n = rng.range(4, if g.tier == "thorough" { 30 } else { 20 });
        let mut steps = vec![];
        for _ in 0..n {
            let slot = rng.below(NSLOTS as u64);
            let site = rng.below(20);
            steps.push(match rng.below(100) {
                0..=19 => json!({"op": "span", "slot": slot, "site": site}),
                20..=27 => json!({"op": "clone", "slot": slot, "b": rng.below(NSLOTS as u64)}),
                28..=39 => json!({"op": "drop", "slot": slot}),
                40..=51 => json!({"op": "enter", "slot": slot}),
                52..=61 => json!({"op": "exit"}),
                62..=69 => json!({"op": "record", "slot": slot}),
                70..=75 => json!({"op": "follows", "slot": slot, "b": rng.below(NSLOTS as u64)}),
                _ => json!({"op": "event", "site": site}),
            });
        }
        let veto = match rng.below(4) {
            0 => json!({"layer": rng.below(nlayers), "site": rng.below(20), "event_step": -1}),
            1 => {
                let evs: Vec<usize> = steps.iter().enumerate().filter(|(_, s)| s["op"] == "event").map(|(i, _)| i).collect();
                if evs.is_empty() {
                    Value::Null
                } else {
                    json!({"layer": rng.below(nlayers), "site": -1, "event_step": *rng.pick(&evs)})
                }
            }
            _ => Value::Null,
        };
        // when a reload wrapper is present, half of the runs race the history with a second thread that holds the
        // wrapper's write lock inside `Handle::modify` (seeded schedules); the wrapped layer must still see everything
        let has_reload = serde_json::to_string(&gvals).unwrap_or_default().contains("\"reload\"");
        let sync = has_reload && rng.chance(1, 2);
        let reloader: Vec<Value> = if sync { (0..rng.range(2, 8)).map(|_| json!({"h": rng.below(4), "yields": rng.range(3, 24)})).collect() } else { vec![] };
        let sched = if sync { Sched::swarm(&mut rng, 300) } else { Sched::op_order(rng.next_u64()) };
        json!({"engine": "wrap", "prop": g.prop, "mode": g.mode, "cfg": {"groups": gvals, "base": base, "wrap": wrap, "veto": veto, "nlayers": nlayers, "reloader": reloader}, "steps": steps, "sched": serde_json::to_value(&sched).unwrap()})
    }

    fn execute(&self, plan: &Value) -> RunResult {
        if plan["cfg"]["fw"].is_object() {
            return crate::fwrap::execute(plan);
        }
        let sched = plan_sched(plan);
        let groups: Vec<Value> = plan["cfg"]["groups"].as_array().cloned().unwrap_or_default();
        let base = plan["cfg"]["base"].as_str().unwrap_or("registry").to_string();
        let wrap = plan["cfg"]["wrap"].as_str().unwrap_or("").to_string();
        let veto = plan["cfg"]["veto"].clone();
        let steps: Vec<Value> = plan["steps"].as_array().cloned().unwrap_or_default();
        let reloader: Vec<Value> = plan["cfg"]["reloader"].as_array().cloned().unwrap_or_default();
        let sync = sched.sync;
        HANDLES.lock().unwrap().clear();
        let leaves = leaf_ids(&groups);
        let leaves2 = leaves.clone();
        let base2 = base.clone();
        let veto2 = veto.clone();
        let body = move || {
            let mut cfgs: HashMap<usize, Arc<PCfg>> = HashMap::new();
            for l in &leaves2 {
                let c = PCfg::default();
                c.veto_enabled_site.store(-1, Ordering::SeqCst);
                cfgs.insert(*l, Arc::new(c));
            }
            if veto2.is_object() {
                let l = veto2["layer"].as_u64().unwrap_or(0) as usize;
                if let Some(c) = cfgs.get(&l) {
                    let site = veto2["site"].as_i64().unwrap_or(-1);
                    if site >= 0 {
                        c.veto_enabled_site.store(site, Ordering::SeqCst);
                    }
                    let es = veto2["event_step"].as_i64().unwrap_or(-1);
                    if es >= 0 {
                        c.veto_event_val.store((es as u64 + 1) * 1000, Ordering::SeqCst);
                    }
                }
            }
            let d = if base2 == "rec" {
                make_dispatch(IdChanging { next: AtomicU64::new(0), log: RecCollect::new(0, FilterSpec::accept_all()) }, &groups, &wrap, &cfgs)
            } else {
                make_dispatch(Registry::default(), &groups, &wrap, &cfgs)
            };
            let _g = dispatch::set_default(&d);
            let mut slots: Vec<Option<SlotE>> = (0..NSLOTS).map(|_| None).collect();
            let mut entered: Vec<(u64, Id, Dispatch)> = vec![];
            let mut handles: HashMap<u64, i64> = HashMap::new();
            let mut run = |gi: usize, s: &Value, slots: &mut Vec<Option<SlotE>>, entered: &mut Vec<(u64, Id, Dispatch)>, handles: &mut HashMap<u64, i64>| {
                let op = s["op"].as_str().unwrap_or("").to_string();
                let slot = s["slot"].as_u64().unwrap_or(0) as usize % NSLOTS;
                let site = s["site"].as_u64().unwrap_or(0) as usize % sites::N;
                let uid = (gi as u64 + 1) * 1000;
                let mut h = H { gi, op: op.clone(), applied: true, site, ..Default::default() };
                h.inv = detsim::stamp();
                match op.as_str() {
                    "span" => {
                        if slots[slot].is_some() {
                            h.applied = false;
                        } else {
                            let sp = sites::make_root_span(site, uid);
                            h.uid = uid;
                            h.id = sp.id().map(|i| i.into_u64()).unwrap_or(0);
                            h.enabled_handle = !sp.is_disabled();
                            if h.enabled_handle {
                                handles.insert(uid, 1);
                            }
                            slots[slot] = Some(SlotE { span: sp, uid });
                        }
                    }
                    "clone" => {
                        let b = s["b"].as_u64().unwrap_or(0) as usize % NSLOTS;
                        if b == slot || slots[b].is_some() || slots[slot].is_none() {
                            h.applied = false;
                        } else {
                            let (sp, u) = {
                                let e = slots[slot].as_ref().unwrap();
                                (e.span.clone(), e.uid)
                            };
                            h.uid = u;
                            h.id = slots[slot].as_ref().unwrap().span.id().map(|i| i.into_u64()).unwrap_or(0);
                            h.id2 = sp.id().map(|i| i.into_u64()).unwrap_or(0);
                            if let Some(n) = handles.get_mut(&u) {
                                *n += 1;
                            }
                            slots[b] = Some(SlotE { span: sp, uid: u });
                        }
                    }
                    "drop" => match slots[slot].take() {
                        Some(e) => {
                            if entered.iter().any(|x| x.0 == e.uid) && crate::driver::finding_open("F13") {
                                // while F13 is open: never make an exit the operation that closes a span
                                h.applied = false;
                                slots[slot] = Some(e);
                            } else {
                                h.uid = e.uid;
                                h.id = e.span.id().map(|i| i.into_u64()).unwrap_or(0);
                                let still_entered = entered.iter().any(|x| x.0 == e.uid);
                                if let Some(n) = handles.get_mut(&e.uid) {
                                    *n -= 1;
                                    h.closes = *n == 0 && !still_entered;
                                }
                                drop(e.span);
                            }
                        }
                        None => h.applied = false,
                    },
                    "enter" => match slots[slot].as_ref() {
                        Some(e) if !entered.iter().any(|x| x.0 == e.uid) => match e.span.with_collector(|(id, d)| (id.clone(), d.clone())) {
                            Some((id, d)) => {
                                h.uid = e.uid;
                                h.id = id.into_u64();
                                d.enter(&id);
                                entered.push((e.uid, id, d));
                            }
                            None => h.applied = false,
                        },
                        _ => h.applied = false,
                    },
                    "exit" => match entered.pop() {
                        Some((u, id, d)) => {
                            h.uid = u;
                            h.id = id.into_u64();
                            // the exit closes the span if its last handle was dropped while it was entered
                            h.closes = handles.get(&u).map_or(false, |n| *n == 0);
                            d.exit(&id);
                        }
                        None => h.applied = false,
                    },
                    "record" => match slots[slot].as_ref() {
                        Some(e) if !e.span.is_disabled() => {
                            h.uid = e.uid;
                            h.id = e.span.id().map(|i| i.into_u64()).unwrap_or(0);
                            e.span.record("late", uid);
                        }
                        _ => h.applied = false,
                    },
                    "follows" => {
                        let b = s["b"].as_u64().unwrap_or(0) as usize % NSLOTS;
                        match (slots[slot].as_ref(), slots[b].as_ref()) {
                            (Some(x), Some(y)) if b != slot && !x.span.is_disabled() && !y.span.is_disabled() => {
                                h.uid = x.uid;
                                h.id = x.span.id().map(|i| i.into_u64()).unwrap_or(0);
                                h.id2 = y.span.id().map(|i| i.into_u64()).unwrap_or(0);
                                x.span.follows_from(&y.span);
                            }
                            _ => h.applied = false,
                        }
                    }
                    "event" => {
                        h.uid = uid;
                        sites::emit_event_root(site, uid);
                    }
                    _ => h.applied = false,
                }
                h.ret = detsim::stamp();
                ev(format!("op {gi} {op} applied={} uid={} id={} id2={}", h.applied, h.uid, h.id, h.id2));
                HIST.lock().unwrap().push(h);
            };
            let mut reloader_tid = None;
            if sync && !reloader.is_empty() {
                let rl = reloader.clone();
                reloader_tid = Some(detsim::spawn("reloader", move || {
                    for r in rl {
                        detsim::op_boundary("op");
                        fault("reload_modify_in_progress");
                        let f = {
                            let hs = HANDLES.lock().unwrap();
                            if hs.is_empty() {
                                continue;
                            }
                            hs[r["h"].as_u64().unwrap_or(0) as usize % hs.len()].clone()
                        };
                        f(r["yields"].as_u64().unwrap_or(1));
                    }
                }));
            }
            for (gi, s) in steps.iter().enumerate() {
                if sync {
                    detsim::op_boundary("op");
                }
                run(gi, s, &mut slots, &mut entered, &mut handles);
            }
            if let Some(t) = reloader_tid {
                detsim::join(t);
            }
            let mut n = 0;
            while !entered.is_empty() {
                run(1_000_000 + n, &json!({"op": "exit"}), &mut slots, &mut entered, &mut handles);
                n += 1;
            }
            for slot in 0..NSLOTS {
                run(2_000_000 + slot, &json!({"op": "drop", "slot": slot}), &mut slots, &mut entered, &mut handles);
            }
        };
        let plan2 = plan.clone();
        let finish = move || {
            let hist = std::mem::take(&mut *HIST.lock().unwrap());
            // the reloader thread causes no notifications of its own (only callsite re-registration): judge the
            // callbacks made on the history's thread
            let log: Vec<LRec> = reclayer::take_llog().into_iter().filter(|r| r.thread == 0 || r.kind == "on_register_dispatch").collect();
            let _ = crate::rec::take_log();
            oracle(&plan2, &hist, &log, &leaves, &base, &veto);
        };
        simulate(&plan.to_string(), &sched, None, body, finish)
    }
}

fn oracle(plan: &Value, hist: &[H], log: &[LRec], leaves: &[usize], base: &str, veto: &Value) {
    let n = leaves.len();
    let want_order: Vec<usize> = leaves.to_vec();
    let lifecycle = ["on_new_span", "on_record", "on_follows_from", "on_event", "on_enter", "on_exit", "on_close", "on_id_change"];
    let veto_layer = veto["layer"].as_u64().map(|x| x as usize);
    let veto_site = veto["site"].as_i64().unwrap_or(-1);
    let veto_val = veto["event_step"].as_i64().filter(|x| *x >= 0).map(|x| (x as u64 + 1) * 1000).unwrap_or(0);
    // dispatcher registration: exactly once per layer
    for l in leaves {
        let c = log.iter().filter(|r| r.layer == *l && r.kind == "on_register_dispatch").count();
        if c != 1 {
            violation("notification-missing", format!("layer {l} was told about its dispatcher {c} times (expected exactly once); wrappers: {}", plan["cfg"]["groups"]));
            return;
        }
    }
    let mut total = 0usize;
    for h in hist.iter().filter(|h| h.applied) {
        let vetoed_enabled = veto_layer.is_some() && veto_site >= 0 && matches!(h.op.as_str(), "span" | "event") && h.site as i64 == veto_site;
        let vetoed_event = veto_layer.is_some() && h.op == "event" && veto_val != 0 && h.uid == veto_val;
        // expected lifecycle kinds in this op's window
        let mut want: Vec<&str> = vec![];
        match h.op.as_str() {
            "span" => {
                if !vetoed_enabled {
                    want.push("on_new_span");
                }
            }
            "clone" => {
                if base == "rec" && h.id != 0 {
                    want.push("on_id_change");
                }
            }
            "drop" => {
                if base != "rec" && h.closes {
                    want.push("on_close");
                }
            }
            "enter" => want.push("on_enter"),
            "exit" => {
                want.push("on_exit");
                if base != "rec" && h.closes {
                    want.push("on_close");
                }
            }
            "record" => want.push("on_record"),
            "follows" => want.push("on_follows_from"),
            "event" => {
                if !vetoed_enabled && !vetoed_event {
                    want.push("on_event");
                }
            }
            _ => {}
        }
        if h.op == "span" && h.enabled_handle == vetoed_enabled {
            violation("veto-ignored", format!("op {} span at site {}: handle enabled={} but a layer {} it", h.gi, h.site, h.enabled_handle, if vetoed_enabled { "vetoed" } else { "did not veto" }));
            return;
        }
        let win: Vec<&LRec> = log.iter().filter(|r| r.stamp > h.inv && r.stamp < h.ret && lifecycle.contains(&r.kind)).collect();
        for k in lifecycle.iter() {
            let got: Vec<usize> = win.iter().filter(|r| r.kind == *k).map(|r| r.layer).collect();
            let expect_here = want.contains(k);
            if !expect_here {
                if !got.is_empty() {
                    violation("notification-unexpected", format!("op {} ({}): layers {:?} received {} which the workload does not cause here", h.gi, h.op, got, k));
                    return;
                }
                continue;
            }
            total += got.len();
            if got != want_order {
                let mut sorted = got.clone();
                sorted.sort();
                let class = if sorted == { let mut w = want_order.clone(); w.sort(); w } { "notification-order" } else if got.len() > n || { let mut d = sorted.clone(); d.dedup(); d.len() != sorted.len() } { "notification-duplicated" } else { "notification-missing" };
                violation(class, format!("op {} ({}): {} reached layers {:?}, expected each of {:?} exactly once, inner first; wrappers: {}; collector wrap {:?}; base {}", h.gi, h.op, k, got, want_order, plan["cfg"]["groups"], plan["cfg"]["wrap"], base));
                return;
            }
            // the ids every layer saw must agree
            let ids: Vec<(u64, u64, u64)> = win.iter().filter(|r| r.kind == *k).map(|r| (r.id, r.id2, r.val)).collect();
            if ids.windows(2).any(|w| w[0] != w[1]) {
                violation("notification-differs", format!("op {} ({}): layers saw different arguments for {}: {:?}", h.gi, h.op, k, ids));
                return;
            }
        }
        // an exit that releases the last reference: every layer hears on_exit before anybody hears on_close
        if h.op == "exit" && h.closes && base != "rec" {
            let last_exit = win.iter().filter(|r| r.kind == "on_exit").map(|r| r.stamp).max().unwrap_or(0);
            let first_close = win.iter().filter(|r| r.kind == "on_close").map(|r| r.stamp).min().unwrap_or(u64::MAX);
            if first_close < last_exit {
                violation("notification-order", format!("op {} (exit that closes span uid {}): on_close was delivered before every layer had received on_exit", h.gi, h.uid));
                return;
            }
        }
        // query notifications for emissions: counts agree across layers unless someone vetoed
        if matches!(h.op.as_str(), "span" | "event") {
            for k in ["enabled", "event_enabled"] {
                let per: Vec<usize> = leaves.iter().map(|l| log.iter().filter(|r| r.layer == *l && r.kind == k && r.stamp > h.inv && r.stamp < h.ret).count()).collect();
                if vetoed_enabled || vetoed_event {
                    if let Some(v) = veto_layer {
                        let idx = leaves.iter().position(|l| *l == v);
                        if let Some(i) = idx {
                            let kk = if vetoed_enabled { "enabled" } else { "event_enabled" };
                            if k == kk && per[i] != 1 {
                                violation("veto-not-asked", format!("op {}: the vetoing layer {v} logged {} {} calls", h.gi, per[i], k));
                                return;
                            }
                        }
                    }
                } else if per.iter().any(|c| *c != per[0]) || per[0] > 1 {
                    violation("query-count-differs", format!("op {} ({} at site {}): layers were asked {} {:?} times (expected the same count, at most once, for every layer)", h.gi, h.op, h.site, k, per));
                    return;
                }
            }
        }
    }
    // register_callsite: same sequence for every layer
    let seqs: Vec<Vec<(i32, u8)>> = leaves.iter().map(|l| log.iter().filter(|r| r.layer == *l && r.kind == "register_callsite").map(|r| (r.site, r.skind)).collect()).collect();
    if seqs.windows(2).any(|w| w[0] != w[1]) {
        violation("query-count-differs", format!("layers saw different callsite registrations: {:?}", seqs.iter().map(|s| s.len()).collect::<Vec<_>>()));
        return;
    }
    let wrappers = plan["cfg"]["groups"].to_string();
    let has_wrapper = ["box", "some", "vec", "reload", "and_then"].iter().any(|w| wrappers.contains(&format!("\"{w}\"")));
    if n >= 2 && has_wrapper && total >= 5 {
        nontrivial();
    }
}
