#!/bin/bash
# confirm_any.sh <PROP> <seed dir> <worktree>  — dispatches on meta.json: unit_test_in / demo_path / features
PROP=$1; DIR=$2; WT=$3
read -r UNIT FEAT DEMO <<<"$(python3 - "$DIR/meta.json" <<'PY'
import json,sys
d=json.load(open(sys.argv[1]))
u=(d.get('unit_test_in') or '').strip() or '-'
f=(d.get('features') or '').strip().replace(' ','@') or '-'
p=(d.get('demo_path') or '').strip().split(' ')[0] or '-'
print(u,f,p)
PY
)"
FEAT=${FEAT//@/ }; [ "$FEAT" = "-" ] && FEAT=""
HERE=$(dirname $0)
if [ "$UNIT" != "-" ]; then
  CRATE=$(echo $UNIT | cut -d/ -f1)
  $HERE/confirm_seed_unit.sh $PROP $DIR $WT $UNIT $CRATE "$FEAT"
else
  CONFIRM_FEATURES="$FEAT" $HERE/confirm_seed.sh $PROP $DIR $WT
fi
